// Package c13 decides C13 (the on-disk compilation cache is deterministic and
// crash-safe) by fault enumeration: for a set of modules it kills a writer
// process at every step of fileCache.Add (and after k copied bytes), inspects
// the cache directory, and lets a later process use it; it sweeps every
// truncation length of complete entries, plants foreign-version entries, and
// compares the entry bytes produced by separate processes, different orders
// and 8 concurrent writers with a polling reader.
package c13

import (
	"bytes"
	"encoding/base64"
	"encoding/json"
	"fmt"
	"os"
	"os/exec"
	"path/filepath"
	"regexp"
	"runtime"
	"sort"
	"strings"
	"time"

	"github.com/tetratelabs/wazero/verifharness/core"
)

var Prop = &core.Prop{ID: "C13", Run: run, Child: child}

var hookPoints = []string{
	"filecache.add.tmp-created",
	"filecache.add.copied",
	"filecache.add.synced",
	"filecache.add.closed",
	"filecache.add.renamed",
}

const copyPoint = "filecache.add.copy"

type modInfo struct {
	Name, Kind string
	Wasm       string // path
	Sub, Key   string
	EntryPath  string
	Entry      []byte
	EntrySha   string
	L          layout
	Trace      string
	Want       string // sha of Trace
}

// blob: self-contained reproducer material for small modules.
func (m *modInfo) blob() map[string]any {
	out := map[string]any{"cache_file": m.Sub + "/" + m.Key}
	if w, err := os.ReadFile(m.Wasm); err == nil && len(w) <= 8192 {
		out["wasm_base64"] = base64.StdEncoding.EncodeToString(w)
	} else {
		out["wasm"] = "see props/c13/modules.go: " + m.Name
	}
	if len(m.Entry) <= 4096 {
		out["complete_entry_base64"] = base64.StdEncoding.EncodeToString(m.Entry)
	}
	return out
}

type driver struct {
	broken string     // a workload class that was never exercised
	fam    []*modInfo // same-shape modules returning a module-specific constant
	deaths map[string]bool
	c      *core.Ctx
	work   string
	mods   []*modInfo
	evals  int64
	seq    int
}

func (d *driver) newDir(kind string) string {
	d.seq++
	p := filepath.Join(d.work, fmt.Sprintf("%s-%06d", kind, d.seq))
	return p
}

var reHex = regexp.MustCompile(`0x[0-9a-fA-F]+`)

func firstWords(s string, n int) string {
	s = stripNumbers(reHex.ReplaceAllString(s, "ADDR"))
	f := strings.Fields(s)
	if len(f) > n {
		f = f[:n]
	}
	return strings.Join(f, "_")
}

// cleanChildFiles removes the supervisor's leftovers of an expected child death.
func cleanChildFiles(cr *core.Crash) {
	if cr == nil || cr.Log == "" {
		return
	}
	base := strings.TrimSuffix(cr.Log, ".log")
	for _, ext := range []string{".in", ".out", ".journal", ".log"} {
		os.Remove(base + ext)
	}
}

func firstDiff(a, b string) string {
	la, lb := strings.Split(a, "\n"), strings.Split(b, "\n")
	for i := range la {
		if i >= len(lb) || la[i] != lb[i] {
			other := "(missing)"
			if i < len(lb) {
				other = lb[i]
			}
			return fmt.Sprintf("line %d: base %q / got %q", i, core.Trunc(la[i], 300), core.Trunc(other, 300))
		}
	}
	if len(lb) > len(la) {
		return fmt.Sprintf("extra line %d: %q", len(la), core.Trunc(lb[len(la)], 300))
	}
	return "equal"
}

func run(c *core.Ctx) int {
	c.Level = "fault_enumeration"
	work, err := os.MkdirTemp("", "c13-")
	if err != nil {
		fmt.Println("cannot create work dir:", err)
		return 2
	}
	defer os.RemoveAll(work)
	d := &driver{c: c, work: work, deaths: map[string]bool{}}
	os.RemoveAll(filepath.Join(c.Out, "children")) // leftovers of earlier runs of this check

	d.phaseRef()
	if len(d.mods) < 10 {
		c.Inconclusive("module-set-too-small")
		return finishBroken(c, d, "fewer than 10 usable modules")
	}
	c.Extra("phase_ref_s", time.Since(c.Start).Seconds())
	// development knob: C13_ONLY=crash,trunc,... runs a subset (the run is then reported as broken/inconclusive)
	only := os.Getenv("C13_ONLY")
	want := func(p string) bool {
		if only == "" || strings.Contains(","+only+",", ","+p+",") {
			return true
		}
		c.Inconclusive("phase-skipped:" + p)
		return false
	}
	if want("crash") {
		d.phaseCrash()
	}
	c.Extra("phase_crash_s", time.Since(c.Start).Seconds())
	if want("fault") {
		d.phaseFault()
	}
	c.Extra("phase_fault_s", time.Since(c.Start).Seconds())
	if want("trunc") {
		d.phaseTrunc()
	}
	c.Extra("phase_trunc_s", time.Since(c.Start).Seconds())
	if want("skew") {
		d.phaseSkew()
	}
	c.Extra("phase_skew_s", time.Since(c.Start).Seconds())
	if want("order") {
		d.phaseOrder()
	}
	if want("conc") {
		d.phaseConc()
	}
	if want("concsp") {
		d.phaseConcSP()
	}
	if want("concdiff") {
		d.phaseConcDiff()
	}
	c.Extra("phase_determinism_s", time.Since(c.Start).Seconds())
	if want("corrupt") {
		d.phaseCorrupt()
	}
	c.Extra("phase_corrupt_s", time.Since(c.Start).Seconds())

	broken := ""
	for _, p := range append(append([]string{}, hookPoints...), copyPoint) {
		if c.Counter("crash_reached:"+p) == 0 {
			c.Inconclusive("hook-never-reached:" + p)
			broken = "crash point " + p + " was never reached"
		}
	}
	if broken == "" {
		broken = d.broken
	}
	if broken != "" {
		return finishBroken(c, d, broken)
	}
	return d.finish()
}

func (d *driver) finish() int {
	c := d.c
	c.Assume("process death (SIGKILL) only; power loss / unsynced directory entries are not produced")
	c.Assume("the interpreter engine ignores the file cache (checked each run: interp_cache_files counter stays 0); the compiler engine is the subject")
	c.Assume("behaviour = results/error texts of every exported function (first 40, two fixed argument sets), memory digest, exported globals g0..g7")
	c.Assume("a truncated entry of a module without code that is accepted is counted (truncated_accepted_nocode) but not a violation: nothing is executed")
	c.Assume("single-byte corruptions are information only unless the process dies")
	return c.Finish(d.evals, int64(c.DistinctN("cases")),
		"fault enumeration over (module x crash point | copied-bytes k | truncation length | foreign version | order | concurrent round | corruption); one evaluation = one decided (directory state + later-process behaviour) observation; distinct = distinct (module, fault kind, parameter) with a module that has code or data")
}

func finishBroken(c *core.Ctx, d *driver, why string) int {
	rc := d.finish()
	fmt.Printf("BROKEN: C13 %s\n", why)
	if rc == 0 {
		return 2
	}
	return rc
}

// ---------------------------------------------------------------------------
// phase 0: reference entries and base traces

func (d *driver) phaseRef() {
	c := d.c
	specs, missing := moduleSet(c.Seed, c.N(6, 10))
	for _, m := range missing {
		c.Inconclusive("testdata-missing:" + m)
	}
	var cases []json.RawMessage
	for _, s := range specs {
		dir := filepath.Join(d.work, "mod-"+s.Name)
		os.MkdirAll(dir, 0o755)
		p := filepath.Join(dir, "module.wasm")
		os.WriteFile(p, s.Wasm, 0o644)
		cases = append(cases, core.J(refJob{Mod: s.Name, Wasm: p, Dir: dir}))
	}
	res := core.RunCases(c, "ref", cases, core.ChildOpts{Batch: 1, TimeoutS: 300})
	wantPoints := strings.Join([]string{hookPoints[0], copyPoint, hookPoints[1], hookPoints[2], hookPoints[3], hookPoints[4]}, ",")
	for i, r := range res {
		s := specs[i]
		if r.Crash != nil {
			if r.Crash.Kind == "timeout" {
				c.Inconclusive("ref-timeout:" + s.Name)
			} else {
				c.Violate("reference-run:child-died:"+r.Crash.Kind+":"+firstWords(r.Crash.Detail, 5), "uncrashed compile+run with a cache directory killed the process: "+r.Crash.Detail,
					map[string]any{"module": s.Name, "crash": r.Crash})
			}
			continue
		}
		var o refOut
		if err := json.Unmarshal(r.Out, &o); err != nil {
			c.Inconclusive("bad-child-output")
			continue
		}
		if o.Unusable != "" {
			c.Count("modules_unusable", 1)
			c.Distinct("unusable_modules", s.Name+": "+core.Trunc(o.Unusable, 120))
			continue
		}
		d.evals++
		if got := strings.Join(o.Points, ","); got != wantPoints {
			c.Inconclusive("hook-sequence-unexpected")
			c.Distinct("hook_sequences", got)
		} else {
			c.Count("uncrashed_add_hook_sequences_ok", 1)
		}
		if o.MissDiffers != "" {
			c.Violate("cache-miss-run-differs-from-no-cache-run", s.Name+": "+firstDiff(o.Trace, o.MissDiffers), map[string]any{"module": s.Name, "base": o.Trace, "got": o.MissDiffers})
		}
		if o.HitDiffers != "" {
			c.Violate("complete-entry:run-differs-from-fresh-compile", s.Name+": "+firstDiff(o.Trace, o.HitDiffers), map[string]any{"module": s.Name, "base": o.Trace, "got": o.HitDiffers})
		}
		if len(o.OtherFiles) > 0 {
			c.Violate("uncrashed-add:unexpected-files", fmt.Sprintf("%s: %v", s.Name, o.OtherFiles), map[string]any{"module": s.Name, "files": o.OtherFiles})
		}
		if !o.Entry2Same {
			c.Violate("nondeterministic-entry:same-process-second-directory", s.Name+": entry bytes differ between two compilations in one process", map[string]any{"module": s.Name})
		}
		c.Count("entries_compared", 1)
		c.Count("interp_cache_files", int64(o.InterpFiles))
		if o.InterpFiles != 0 || o.InterpErr != "" {
			c.Inconclusive("interpreter-touched-file-cache")
		} else {
			c.Count("interp_runs_without_cache_files", 1)
		}
		entry, err := os.ReadFile(o.Entry)
		if err != nil {
			c.Inconclusive("entry-unreadable")
			continue
		}
		l, err := parseEntry(entry)
		if err != nil {
			// the harness's reading of the format is wrong: regions are unknown
			c.Inconclusive("entry-layout-not-understood")
			c.Distinct("layout_errors", s.Name+": "+err.Error())
			continue
		}
		mi := &modInfo{Name: s.Name, Kind: s.Kind, Wasm: filepath.Join(d.work, "mod-"+s.Name, "module.wasm"), Sub: o.Sub, Key: o.Key,
			EntryPath: o.Entry, Entry: entry, EntrySha: shaHex(entry), L: l, Trace: o.Trace, Want: shaHex([]byte(o.Trace))}
		if s.Kind == "family" {
			// only used by the concurrent-compilation-of-different-modules phase
			d.fam = append(d.fam, mi)
			c.Count("family_modules", 1)
			c.Distinct("family_entry_sizes", fmt.Sprint(len(entry)))
			continue
		}
		d.mods = append(d.mods, mi)
		c.Distinct("modules", fmt.Sprintf("%s(entry=%dB funcs=%d code=%dB sourcemap=%d)", s.Name, len(entry), l.NFuncs, l.CodeLen, l.SMLen))
		c.Distinct("wazero_version_in_entries", l.Version)
		if l.SMLen > 0 {
			c.Count("modules_with_source_map", 1)
		}
		if l.NFuncs == 0 {
			c.Count("modules_without_code", 1)
		}
	}
	c.Count("modules", int64(len(d.mods)))
	if len(d.mods) > 0 {
		m := d.mods[len(d.mods)/2]
		c.Sample(map[string]any{"what": "reference", "module": m.Name, "entry_len": len(m.Entry), "key": m.Key, "dir": m.Sub, "trace_head": core.Trunc(m.Trace, 400)})
	}
}

// ---------------------------------------------------------------------------
// deciding a later process ("use" child)

type useExpect struct {
	kind   string // crash | trunc | skew | corrupt
	param  string // for signatures: point / region / version class
	mod    *modInfo
	hasBad bool            // a damaged entry was planted under the final name
	others map[string]bool // keys of other modules whose entries legitimately share the directory
	noErr  bool            // nothing damaged was planted and nobody died: a later CompileModule error is a violation
	info   bool            // information only (corruption)
}

// decideUse applies monitor 2 (+ the directory monitor after every round).
// It returns the outcome class of round 0.
func (d *driver) decideUse(e useExpect, job useJob, r core.CaseResult) string {
	c := d.c
	m := e.mod
	wit := func(extra map[string]any) map[string]any {
		w := map[string]any{"module": m.Name, "fault": e.kind, "param": e.param, "job": job, "entry_len": len(m.Entry), "module_and_entry": m.blob(),
			"replay": "write the module (harness props/c13/modules.go, name above) to a file, prepare the cache directory as in job.prep / job.tag, then CompileModule+instantiate+call exports with wazero.NewCompilationCacheWithDir(dir)"}
		for k, v := range extra {
			w[k] = v
		}
		return w
	}
	if r.Crash != nil {
		if r.Crash.Kind == "timeout" {
			c.Inconclusive("watchdog:" + e.kind)
			return "timeout"
		}
		d.evals++
		sig := fmt.Sprintf("%s:later-process-died:%s:%s:%s", e.kind, e.param, r.Crash.Kind, firstWords(r.Crash.Detail, 4))
		if e.info {
			// garbage execution dies in many ways: one signature per damaged field
			sig = fmt.Sprintf("%s:later-process-died:%s", e.kind, e.param)
			c.Distinct("corrupt_death_kinds", e.param+": "+r.Crash.Kind+" "+firstWords(r.Crash.Detail, 6))
			// The property promises detection of truncated and foreign-version entries only; an
			// arbitrarily corrupted entry is outside it. Deaths are reported as information.
			c.Count("corrupt_outcome:later-process-died(information-only)", 1)
			c.Count(e.kind+"_outcome:died", 1)
			if d.deaths[sig] {
				cleanChildFiles(r.Crash)
			}
			d.deaths[sig] = true
			return "died"
		}
		c.Violate(sig, fmt.Sprintf("module %s, %s %s: the process that used the cache directory died: %s", m.Name, e.kind, job.Tag, r.Crash.Detail), wit(map[string]any{"crash": r.Crash}))
		c.Count(e.kind+"_outcome:died", 1)
		if d.deaths[sig] {
			cleanChildFiles(r.Crash) // keep the supervisor's files of the first death per signature only
		}
		d.deaths[sig] = true
		return "died"
	}
	var o useOut
	if err := json.Unmarshal(r.Out, &o); err != nil || o.PrepErr != "" || len(o.Rounds) == 0 {
		c.Inconclusive("bad-child-output:" + e.kind)
		return "bad"
	}
	d.evals++
	first := ""
	for ri, rr := range o.Rounds {
		outcome := ""
		switch {
		case rr.CacheErr != "":
			c.Inconclusive("cache-dir-error")
			outcome = "cache-error"
		case rr.CompileErr != "":
			outcome = "error"
			if e.noErr {
				cls := errClass(rr.CompileErr)
				if strings.HasPrefix(cls, "entry-rejected") {
					cls = "entry-rejected" // the text depends on where the entry ends
				}
				c.Violate(fmt.Sprintf("%s:later-process-compile-error:%s:%s", e.kind, e.param, cls),
					fmt.Sprintf("module %s, %s %s round %d: CompileModule failed: %s", m.Name, e.kind, job.Tag, ri, core.Trunc(rr.CompileErr, 300)), wit(map[string]any{"files": rr.Files, "round": ri}))
			}
			c.Distinct(e.kind+"_error_texts", core.Trunc(stripNumbers(rr.CompileErr), 100))
		case !rr.TraceOK:
			outcome = "behaviour-differs"
			if e.info {
				c.Count("corrupt_undetected_behaviour_differs:"+e.param, 1)
			} else {
				c.Violate(fmt.Sprintf("%s:later-process-behaviour-differs:%s", e.kind, e.param),
					fmt.Sprintf("module %s, %s %s round %d: %s", m.Name, e.kind, job.Tag, ri, firstDiff(m.Trace, rr.Trace)),
					wit(map[string]any{"base_trace": core.Trunc(m.Trace, 6000), "got_trace": core.Trunc(rr.Trace, 6000), "round": ri}))
			}
		default:
			outcome = "ok"
		}
		// directory monitor after the round
		final, hasFinal := rr.Files[m.Key]
		for name, fi := range rr.Files {
			if name == m.Key || strings.HasSuffix(name, ".tmp") || e.others[name] {
				continue
			}
			_ = fi
			c.Violate("cache-dir:unexpected-file-name", fmt.Sprintf("module %s: file %q in the cache directory after %s %s", m.Name, name, e.kind, job.Tag), wit(map[string]any{"files": rr.Files}))
		}
		if hasFinal {
			switch {
			case final.Sha == m.EntrySha:
				if outcome == "ok" && e.hasBad && ri == 0 {
					outcome = "recompiled"
				}
			case e.hasBad && final.Sha == o.BadSha:
				if outcome == "ok" {
					outcome = "accepted"
				}
			default:
				if e.info {
					c.Count("corrupt_final_entry_differs_afterwards", 1)
				} else {
					c.Violate(fmt.Sprintf("%s:final-name-holds-incomplete-or-different-entry:%s", e.kind, e.param),
						fmt.Sprintf("module %s, %s %s round %d: file under the final name has %d bytes sha %s, complete entry has %d bytes sha %s", m.Name, e.kind, job.Tag, ri, final.Len, final.Sha[:12], len(m.Entry), m.EntrySha[:12]),
						wit(map[string]any{"files": rr.Files, "round": ri}))
				}
			}
			c.Count("entries_compared", 1)
		} else if outcome == "ok" {
			outcome = "ok-no-entry"
		}
		if outcome == "accepted" {
			switch {
			case e.info:
				c.Count("corrupt_accepted_same_behaviour:"+e.param, 1)
			case e.kind == "trunc" && m.L.CodeLen > 0:
				c.Violate("trunc:truncated-entry-accepted-and-executed:"+e.param,
					fmt.Sprintf("module %s: entry truncated to %s was used without error (and left in place)", m.Name, job.Tag), wit(map[string]any{"files": rr.Files}))
			case e.kind == "trunc":
				c.Count("truncated_accepted_nocode", 1)
			case e.kind == "skew":
				// only the poisoned variant can tell execution from ignoring
				c.Count("foreign_entry_left_in_place_without_error", 1)
			}
		}
		c.Count(fmt.Sprintf("%s_outcome_round%d:%s", e.kind, ri, outcome), 1)
		if ri == 0 {
			first = outcome
		}
	}
	return first
}

func stripNumbers(s string) string {
	var sb strings.Builder
	prevDigit := false
	for _, r := range s {
		if r >= '0' && r <= '9' {
			if !prevDigit {
				sb.WriteByte('N')
			}
			prevDigit = true
			continue
		}
		prevDigit = false
		sb.WriteRune(r)
	}
	return sb.String()
}

// ---------------------------------------------------------------------------
// phase 1: crash points

type crashCase struct {
	m      *modInfo
	point  string
	k      int
	dir    string
	marker string
	poison bool
}

func (cc *crashCase) tag() string {
	if cc.point == copyPoint {
		return fmt.Sprintf("%s k=%d", cc.point, cc.k)
	}
	return cc.point
}

// ksFor: the copied-byte counts at which the writer dies.
func (d *driver) ksFor(m *modInfo, full bool, idx int) (ks []int, exhaustive bool) {
	n := len(m.Entry)
	set := map[int]bool{}
	addk := func(k int) {
		if k >= 0 && k < n {
			set[k] = true
		}
	}
	addk(0)
	addk(1)
	addk(n - 1)
	if full {
		limit := d.c.N(0, 1500)
		if n <= limit {
			for k := 0; k < n; k++ {
				addk(k)
			}
			exhaustive = true
		} else {
			for _, b := range m.L.boundaries() {
				addk(b - 1)
				addk(b)
				addk(b + 1)
			}
			stride := 97
			for n/stride > 250 {
				stride = stride*2 + 1
			}
			for k := 0; k < n; k += stride {
				addk(k)
			}
			addk(32 * 1024) // io.Copy buffer size
			addk(32*1024 - 1)
			addk(32*1024 + 1)
		}
	} else {
		// quick tier: a few interior points, different per module
		bs := m.L.boundaries()
		addk(bs[(idx+3)%len(bs)])
		addk(n / 2)
	}
	for k := range set {
		ks = append(ks, k)
	}
	sort.Ints(ks)
	return
}

func (d *driver) phaseCrash() {
	c := d.c
	var ccs []*crashCase
	type kinfo struct {
		Module     string `json:"module"`
		EntryLen   int    `json:"entry_len"`
		KsTried    int    `json:"ks_tried"`
		Exhaustive bool   `json:"exhaustive"`
	}
	var kinfos []kinfo
	for mi, m := range d.mods {
		for _, p := range hookPoints {
			ccs = append(ccs, &crashCase{m: m, point: p})
		}
		ks, ex := d.copyKs(mi, m)
		for _, k := range ks {
			ccs = append(ccs, &crashCase{m: m, point: copyPoint, k: k})
		}
		kinfos = append(kinfos, kinfo{m.Name, len(m.Entry), len(ks), ex})
	}
	var cases []json.RawMessage
	for i, cc := range ccs {
		cc.dir = d.newDir("crash")
		os.MkdirAll(cc.dir, 0o755)
		cc.marker = cc.dir + ".marker"
		cc.poison = i%2 == 1
		cases = append(cases, core.J(writeJob{Mod: cc.m.Name, Wasm: cc.m.Wasm, Dir: cc.dir, Point: cc.point, K: cc.k, Marker: cc.marker}))
	}
	res := core.RunCases(c, "write", cases, core.ChildOpts{Batch: 1, TimeoutS: 300})
	c.Extra("phase_crash_write_s", time.Since(c.Start).Seconds())

	// monitor 1 and preparation of the later process
	var useCases []json.RawMessage
	var useIdx []int
	var useJobs []useJob
	for i, cc := range ccs {
		r := res[i]
		m := cc.m
		tag := cc.tag()
		mk, _ := os.ReadFile(cc.marker)
		os.Remove(cc.marker)
		want := cc.point
		if cc.point == copyPoint {
			want = fmt.Sprintf("%s %d", cc.point, cc.k)
		}
		if r.Crash == nil {
			// the writer survived: the point was not reached
			c.Count("crash_point_not_reached:"+cc.point, 1)
			c.Inconclusive("writer-survived")
			os.RemoveAll(cc.dir)
			continue
		}
		if r.Crash.Kind == "timeout" {
			c.Inconclusive("watchdog:write")
			os.RemoveAll(cc.dir)
			continue
		}
		if string(mk) != want || !strings.Contains(r.Crash.Detail, "killed") {
			// died, but not where intended: a genuine failure of the writer
			c.Violate("writer:died-elsewhere:"+r.Crash.Kind+":"+firstWords(r.Crash.Detail, 5),
				fmt.Sprintf("module %s: writer meant to die at %s died otherwise: %s (marker %q)", m.Name, tag, r.Crash.Detail, mk),
				map[string]any{"module": m.Name, "point": tag, "crash": r.Crash})
			os.RemoveAll(cc.dir)
			continue
		}
		cleanChildFiles(r.Crash)
		c.Count("crash_reached:"+cc.point, 1)
		sub := filepath.Join(cc.dir, m.Sub)
		files := listDir(sub)
		ntmp, nfinal := 0, 0
		tmpDesc := ""
		bad := false
		for _, name := range sortedKeys(files) {
			fi := files[name]
			switch {
			case strings.HasSuffix(name, ".tmp"):
				ntmp++
				b, _ := os.ReadFile(filepath.Join(sub, name))
				switch {
				case len(b) == 0:
					tmpDesc = "empty"
				case bytes.Equal(b, m.Entry):
					tmpDesc = "complete"
				case bytes.HasPrefix(m.Entry, b):
					tmpDesc = "prefix"
				default:
					tmpDesc = "other"
				}
				if cc.point == copyPoint && fi.Len != cc.k {
					c.Inconclusive("injection-imprecise:tmp-length-differs-from-k")
				}
				if !strings.HasPrefix(name, m.Key+".") {
					c.Violate("crash:tmp-file-not-named-after-key", fmt.Sprintf("module %s after death at %s: temp file %q", m.Name, tag, name), map[string]any{"module": m.Name, "point": tag, "files": files})
				}
			case name == m.Key:
				nfinal++
				c.Count("entries_compared", 1)
				if fi.Sha != m.EntrySha {
					bad = true
					b, _ := os.ReadFile(filepath.Join(sub, name))
					c.Violate("crash:final-name-holds-incomplete-entry:"+cc.point,
						fmt.Sprintf("module %s: after the writer died at %s the file under the final name has %d bytes (complete entry: %d; prefix of it: %v)", m.Name, tag, fi.Len, len(m.Entry), bytes.HasPrefix(m.Entry, b)),
						map[string]any{"module": m.Name, "point": tag, "files": files, "complete_len": len(m.Entry), "complete_sha": m.EntrySha, "module_and_entry": m.blob(),
							"replay": "compile module with NewCompilationCacheWithDir, SIGKILL the process at the named verifhook point, list the directory"})
				}
			default:
				c.Violate("crash:unexpected-file-name", fmt.Sprintf("module %s after death at %s: file %q", m.Name, tag, name), map[string]any{"module": m.Name, "point": tag, "files": files})
			}
		}
		_ = bad
		d.evals++
		c.Distinct("dir_states_after_crash", fmt.Sprintf("%s: tmp=%d(%s) final=%d", cc.point, ntmp, tmpDesc, nfinal))
		if m.L.CodeLen > 0 || len(m.Entry) > 40 {
			c.Distinct("cases", "crash|"+m.Name+"|"+tag)
		}
		// "*.tmp leftovers must never be read": for every second case their
		// content is replaced by a well-formed entry whose code is a trap filler
		if cc.poison && ntmp > 0 {
			pz, err := (&prep{Trunc: -1, FlipOff: -1, Poison: true}).apply(m.Entry)
			if err == nil {
				for name := range files {
					if strings.HasSuffix(name, ".tmp") {
						os.WriteFile(filepath.Join(sub, name), pz, 0o600)
						c.Count("tmp_leftovers_poisoned", 1)
					}
				}
			}
		}
		c.Count("tmp_leftovers_seen", int64(ntmp))
		j := useJob{Mod: m.Name, Wasm: m.Wasm, Dir: cc.dir, Sub: m.Sub, Key: m.Key, Want: m.Want, Rounds: 2, Tag: tag}
		useJobs = append(useJobs, j)
		useCases = append(useCases, core.J(j))
		useIdx = append(useIdx, i)
	}
	ures := core.RunCases(c, "use", useCases, core.ChildOpts{Batch: 2, TimeoutS: 300})
	for n, r := range ures {
		cc := ccs[useIdx[n]]
		out := d.decideUse(useExpect{kind: "crash", param: cc.point, mod: cc.m}, useJobs[n], r)
		if n%211 == 5 && n < 500 {
			c.Sample(map[string]any{"what": "crash case", "module": cc.m.Name, "died_at": cc.tag(), "tmp_poisoned": cc.poison, "later_process": out})
		}
		os.RemoveAll(cc.dir)
	}
	allPoints := true
	for _, p := range hookPoints {
		if c.Counter("crash_reached:"+p) != int64(len(d.mods)) {
			allPoints = false
		}
	}
	c.Extra("crash_points", map[string]any{"points": hookPoints, "modules": len(d.mods), "exhaustive": allPoints,
		"meaning": "every named point of fileCache.Add x every module of the set was reached and decided"})
	c.Extra("copy_k", kinfos)
}

// ---------------------------------------------------------------------------
// phase 2: truncation sweep

func (d *driver) truncLens(m *modInfo) (ts []int, exhaustive bool) {
	n := len(m.Entry)
	limit := d.c.N(1200, 120000)
	if n <= limit {
		for t := 0; t < n; t++ {
			ts = append(ts, t)
		}
		return ts, true
	}
	set := map[int]bool{}
	addt := func(t int) {
		if t >= 0 && t < n {
			set[t] = true
		}
	}
	for _, b := range m.L.boundaries() {
		for dd := -3; dd <= 3; dd++ {
			addt(b + dd)
		}
	}
	edge := d.c.N(48, 3000)
	for t := 0; t < edge; t++ {
		addt(t)
		addt(n - 1 - t)
		addt(m.L.CRCOff - t)
		addt(m.L.CodeOff + t)
	}
	stride := n/d.c.N(120, 4000) + 1
	for t := 0; t < n; t += stride {
		addt(t)
	}
	for t := range set {
		ts = append(ts, t)
	}
	sort.Ints(ts)
	return ts, false
}

func (d *driver) phaseTrunc() {
	c := d.c
	type tinfo struct {
		Module     string `json:"module"`
		EntryLen   int    `json:"entry_len"`
		Tried      int    `json:"truncation_lengths_tried"`
		Exhaustive bool   `json:"exhaustive"`
	}
	var infos []tinfo
	var cases []json.RawMessage
	var jobs []useJob
	var ms []*modInfo
	var regions []string
	for _, m := range d.mods {
		ts, ex := d.truncLens(m)
		infos = append(infos, tinfo{m.Name, len(m.Entry), len(ts), ex})
		for _, t := range ts {
			j := useJob{Mod: m.Name, Wasm: m.Wasm, Dir: d.newDir("trunc"), Sub: m.Sub, Key: m.Key, Want: m.Want, Rounds: 1, Cleanup: true,
				Prep: &prep{Src: m.EntryPath, Trunc: t, FlipOff: -1}, Tag: fmt.Sprintf("length %d of %d", t, len(m.Entry))}
			jobs = append(jobs, j)
			cases = append(cases, core.J(j))
			ms = append(ms, m)
			regions = append(regions, m.L.region(t))
		}
	}
	res := core.RunCases(c, "use", cases, core.ChildOpts{Batch: 40, TimeoutS: 600})
	for i, r := range res {
		m := ms[i]
		out := d.decideUse(useExpect{kind: "trunc", param: "region=" + regions[i], mod: m, hasBad: true}, jobs[i], r)
		c.Count("truncations_tried", 1)
		c.Count("trunc_region:"+regions[i], 1)
		c.Distinct("cases", fmt.Sprintf("trunc|%s|%d", m.Name, jobs[i].Prep.Trunc))
		if i%9973 == 17 {
			c.Sample(map[string]any{"what": "truncation", "module": m.Name, "length": jobs[i].Prep.Trunc, "of": len(m.Entry), "ends_in": regions[i], "later_process": out})
		}
	}
	allEx := true
	for _, i := range infos {
		if !i.Exhaustive {
			allEx = false
		}
	}
	c.Extra("truncation", map[string]any{"per_module": infos, "exhaustive_for_all_modules": allEx,
		"meaning": "exhaustive=true: every length 0..len-1 of that module's complete entry was planted under the final name and decided"})
}

// ---------------------------------------------------------------------------
// phase 3: version skew

func (d *driver) buildOtherFlavour() string {
	c := d.c
	goBin, err := exec.LookPath("go")
	if err != nil {
		c.Inconclusive("version-flavour:no-go-toolchain")
		return ""
	}
	src := ""
	for _, cand := range []string{os.Getenv("VERIF_HARNESS_SRC"), filepath.Join(core.VerifDir(), "harness"), "/verif/harness"} {
		if cand == "" {
			continue
		}
		if _, err := os.Stat(filepath.Join(cand, "cmd", "c13")); err == nil {
			src = cand
			break
		}
	}
	if src == "" {
		c.Inconclusive("version-flavour:no-harness-source")
		return ""
	}
	out := filepath.Join(d.work, "vcheck-otherversion")
	args := []string{"build"}
	if r := os.Getenv("VERIF_REPO"); r != "" && r != "/repo" {
		// ./check built this binary against another checkout through a generated modfile
		mf := filepath.Join(core.VerifDir(), ".build", "C13", "go.mod")
		if _, err := os.Stat(mf); err == nil {
			args = append(args, "-modfile="+mf)
		}
	}
	args = append(args, "-tags", "verif", "-ldflags", "-X github.com/tetratelabs/wazero/internal/version.version=other", "-o", out, "./cmd/c13")
	cmd := exec.Command(goBin, args...)
	cmd.Dir = src
	cmd.Env = append(os.Environ(), "GOFLAGS=-mod=mod", "GOPROXY=off", "GOSUMDB=off", "GOTOOLCHAIN=local")
	if b, err := cmd.CombinedOutput(); err != nil {
		c.Inconclusive("version-flavour:build-failed")
		c.Extra("version_flavour_build_error", core.Trunc(string(b)+err.Error(), 600))
		return ""
	}
	return out
}

func (d *driver) phaseSkew() {
	c := d.c
	own := d.mods[0].L.Version
	versions := []struct{ class, v string }{
		{"same-length", mutateLast(own)},
		{"shorter", own[:len(own)/2]},
		{"longer", own + "-rc1"},
		{"empty", ""},
		{"other", "other"},
		{"very-long", strings.Repeat("v", 200)},
		{"prefix-plus", own + "x"},
	}
	var cases []json.RawMessage
	var jobs []useJob
	var exps []useExpect
	for _, m := range d.mods {
		for _, v := range versions {
			for _, poison := range []bool{false, true} {
				if poison && m.L.CodeLen == 0 {
					continue
				}
				vv := v.v
				tag := fmt.Sprintf("version %q (%s) poisoned-code=%v", core.Trunc(vv, 20), v.class, poison)
				j := useJob{Mod: m.Name, Wasm: m.Wasm, Dir: d.newDir("skew"), Sub: m.Sub, Key: m.Key, Want: m.Want, Rounds: 2, Cleanup: true,
					Prep: &prep{Src: m.EntryPath, Trunc: -1, FlipOff: -1, Version: &vv, Poison: poison}, Tag: tag}
				jobs = append(jobs, j)
				cases = append(cases, core.J(j))
				exps = append(exps, useExpect{kind: "skew", param: "emulated:" + v.class, mod: m, hasBad: true})
			}
		}
	}
	res := core.RunCases(c, "use", cases, core.ChildOpts{Batch: 8, TimeoutS: 600})
	for i, r := range res {
		out := d.decideUse(exps[i], jobs[i], r)
		c.Count("skew_emulated_cases", 1)
		c.Distinct("cases", "skew|"+exps[i].mod.Name+"|"+jobs[i].Tag)
		if i%397 == 5 {
			c.Sample(map[string]any{"what": "version skew (emulated header)", "module": exps[i].mod.Name, "planted": jobs[i].Tag, "later_process": out})
		}
	}
	c.Extra("version_skew_emulated", map[string]any{"own_version": own, "planted_versions": versions, "modules": len(d.mods), "exhaustive": true,
		"meaning": "every module x every planted version class (x poisoned/unpoisoned code); the header of a complete entry is rewritten by the harness"})

	// real second flavour: the same harness binary linked with another version string
	other := d.buildOtherFlavour()
	if other == "" {
		c.Extra("version_skew_real_flavour", "not run (see inconclusive)")
		return
	}
	otherSub := "wazero-other-" + runtime.GOARCH + "-" + runtime.GOOS
	// 1. the other flavour writes its entries
	var wcases []json.RawMessage
	odirs := make([]string, len(d.mods))
	for i, m := range d.mods {
		odirs[i] = d.newDir("other")
		os.MkdirAll(odirs[i], 0o755)
		wcases = append(wcases, core.J(useJob{Mod: m.Name, Wasm: m.Wasm, Dir: odirs[i], Sub: otherSub, Key: m.Key, Want: m.Want, Rounds: 2}))
	}
	wres := core.RunCases(c, "use", wcases, core.ChildOpts{Bin: other, Batch: 4, TimeoutS: 600})
	cases, jobs, exps = nil, nil, nil
	var rcases []json.RawMessage // reverse direction (other flavour reads our entry)
	var rmods []*modInfo
	for i, m := range d.mods {
		r := wres[i]
		if r.Crash != nil {
			c.Inconclusive("version-flavour:writer-crashed")
			continue
		}
		var o useOut
		json.Unmarshal(r.Out, &o)
		if len(o.Rounds) != 2 || !o.Rounds[0].TraceOK || !o.Rounds[1].TraceOK {
			c.Violate("skew:other-version-binary-misbehaves-on-own-cache", fmt.Sprintf("module %s: binary with version=other, own cache directory: %+v", m.Name, o.Rounds), map[string]any{"module": m.Name, "out": o})
			continue
		}
		osub := otherSub
		foreign, err := os.ReadFile(filepath.Join(odirs[i], osub, m.Key))
		if err != nil {
			c.Inconclusive("version-flavour:entry-not-found")
			continue
		}
		v := "other"
		emu, _ := (&prep{Trunc: -1, FlipOff: -1, Version: &v}).apply(m.Entry)
		if bytes.Equal(emu, foreign) {
			c.Count("skew_real_entry_equals_emulated_header_patch", 1)
		} else {
			c.Count("skew_real_entry_differs_from_emulated_header_patch", 1)
			c.Inconclusive("version-flavour:emulation-differs-from-real-entry")
		}
		c.Count("entries_compared", 1)
		// 2a. our binary on the other flavour's directory tree as it is (separate sub directories)
		fp := filepath.Join(d.work, fmt.Sprintf("foreign-%s.entry", m.Name))
		os.WriteFile(fp, foreign, 0o600)
		ja := useJob{Mod: m.Name, Wasm: m.Wasm, Dir: odirs[i], Sub: m.Sub, Key: m.Key, Want: m.Want, Rounds: 2, Tag: "directory written by version=other binary, untouched", OtherSub: osub}
		jobs = append(jobs, ja)
		cases = append(cases, core.J(ja))
		exps = append(exps, useExpect{kind: "skew", param: "real:shared-top-directory", mod: m})
		// 2b. the foreign entry transplanted into our version's directory
		jb := useJob{Mod: m.Name, Wasm: m.Wasm, Dir: d.newDir("skewreal"), Sub: m.Sub, Key: m.Key, Want: m.Want, Rounds: 2, Cleanup: true,
			Prep: &prep{Src: fp, Trunc: -1, FlipOff: -1}, Tag: "entry written by version=other binary placed in this version's directory"}
		jobs = append(jobs, jb)
		cases = append(cases, core.J(jb))
		exps = append(exps, useExpect{kind: "skew", param: "real:transplanted", mod: m, hasBad: true})
		// 3. reverse: the other flavour finds our entry in its directory
		rcases = append(rcases, core.J(useJob{Mod: m.Name, Wasm: m.Wasm, Dir: d.newDir("skewrev"), Sub: osub, Key: m.Key, Want: m.Want, Rounds: 2, Cleanup: true,
			Prep: &prep{Src: m.EntryPath, Trunc: -1, FlipOff: -1, Poison: m.L.CodeLen > 0}, Tag: "our (poisoned) entry in the other version's directory"}))
		rmods = append(rmods, m)
	}
	res = core.RunCases(c, "use", cases, core.ChildOpts{Batch: 4, TimeoutS: 600})
	for i, r := range res {
		d.decideUse(exps[i], jobs[i], r)
		c.Count("skew_real_cases", 1)
		c.Distinct("cases", "skewreal|"+exps[i].mod.Name+"|"+exps[i].param)
		if exps[i].param == "real:shared-top-directory" && r.Crash == nil {
			// the other version's sub directory must be untouched
			m := exps[i].mod
			fi := listDir(filepath.Join(jobs[i].Dir, jobs[i].OtherSub))
			foreign, _ := os.ReadFile(filepath.Join(d.work, fmt.Sprintf("foreign-%s.entry", m.Name)))
			if len(fi) != 1 || fi[m.Key].Sha != shaHex(foreign) {
				c.Violate("skew:other-versions-directory-modified", fmt.Sprintf("module %s: files of the other version's directory changed: %v", m.Name, fi), map[string]any{"module": m.Name, "files": fi})
			}
		}
	}
	rres := core.RunCases(c, "use", rcases, core.ChildOpts{Bin: other, Batch: 4, TimeoutS: 600})
	for i, r := range rres {
		m := rmods[i]
		var j useJob
		json.Unmarshal(rcases[i], &j)
		// the other binary's complete entry differs from ours in the header only: compare behaviour, not bytes
		if r.Crash != nil {
			if r.Crash.Kind == "timeout" {
				c.Inconclusive("watchdog:skew")
				continue
			}
			d.evals++
			c.Violate("skew:later-process-died:real:reverse:"+r.Crash.Kind+":"+firstWords(r.Crash.Detail, 4),
				fmt.Sprintf("module %s: binary with version=other died using an entry of this version: %s", m.Name, r.Crash.Detail), map[string]any{"module": m.Name, "job": j, "crash": r.Crash})
			continue
		}
		var o useOut
		json.Unmarshal(r.Out, &o)
		d.evals++
		c.Count("skew_real_cases", 1)
		for ri, rr := range o.Rounds {
			if rr.CompileErr == "" && !rr.TraceOK {
				c.Violate("skew:later-process-behaviour-differs:real:reverse", fmt.Sprintf("module %s round %d: %s", m.Name, ri, firstDiff(m.Trace, rr.Trace)), map[string]any{"module": m.Name, "job": j, "got": rr.Trace})
			}
			if fi, ok := rr.Files[m.Key]; ok && rr.CompileErr == "" && fi.Sha == o.BadSha && m.L.CodeLen > 0 {
				c.Count("foreign_entry_left_in_place_without_error", 1)
			}
			c.Count(fmt.Sprintf("skew_reverse_outcome_round%d:err=%v", ri, rr.CompileErr != ""), 1)
		}
	}
	c.Extra("version_skew_real_flavour", map[string]any{"built": true, "ldflags": "-X github.com/tetratelabs/wazero/internal/version.version=other",
		"modules": len(rmods), "exhaustive": len(rmods) == len(d.mods)})
	for _, dd := range odirs {
		os.RemoveAll(dd)
	}
}

func mutateLast(s string) string {
	if s == "" {
		return "x"
	}
	b := []byte(s)
	if b[len(b)-1] == '1' {
		b[len(b)-1] = '2'
	} else {
		b[len(b)-1] = '1'
	}
	return string(b)
}

// ---------------------------------------------------------------------------
// phase 4a: determinism across processes and orders

func (d *driver) phaseOrder() {
	c := d.c
	rng := core.NewRng(c.Seed, 1302)
	n := c.N(6, 24)
	var cases []json.RawMessage
	var dirs []string
	var descs []string
	for i := 0; i < n; i++ {
		perm := make([]int, len(d.mods))
		for k := range perm {
			perm[k] = k
		}
		desc := "forward"
		switch {
		case i == 1:
			desc = "reverse"
			for a, b := 0, len(perm)-1; a < b; a, b = a+1, b-1 {
				perm[a], perm[b] = perm[b], perm[a]
			}
		case i > 1:
			desc = fmt.Sprintf("shuffle-%d", i)
			for k := len(perm) - 1; k > 0; k-- {
				j := rng.Intn(k + 1)
				perm[k], perm[j] = perm[j], perm[k]
			}
		}
		var ws []string
		for _, k := range perm {
			ws = append(ws, d.mods[k].Wasm)
		}
		dir := d.newDir("order")
		os.MkdirAll(dir, 0o755)
		dirs = append(dirs, dir)
		descs = append(descs, desc)
		cases = append(cases, core.J(orderJob{Wasms: ws, Dir: dir}))
	}
	res := core.RunCases(c, "order", cases, core.ChildOpts{Batch: 1, TimeoutS: 600})
	for i, r := range res {
		if r.Crash != nil {
			if r.Crash.Kind == "timeout" {
				c.Inconclusive("watchdog:order")
			} else {
				c.Violate("order:child-died:"+r.Crash.Kind+":"+firstWords(r.Crash.Detail, 4), r.Crash.Detail, map[string]any{"order": descs[i], "crash": r.Crash})
			}
			continue
		}
		var o orderOut
		json.Unmarshal(r.Out, &o)
		if len(o.Errs) > 0 {
			c.Violate("order:compile-error-with-shared-cache", strings.Join(o.Errs, "; "), map[string]any{"order": descs[i], "errs": o.Errs})
		}
		files := listDir(filepath.Join(dirs[i], d.mods[0].Sub))
		for _, m := range d.mods {
			d.evals++
			c.Count("entries_compared", 1)
			c.Count("order_entries_compared", 1)
			fi, ok := files[m.Key]
			if !ok || fi.Sha != m.EntrySha {
				c.Violate("nondeterministic-entry:other-process-or-order",
					fmt.Sprintf("module %s compiled in order %s (one runtime for all modules): entry present=%v len=%d sha=%s; reference len=%d sha=%s", m.Name, descs[i], ok, fi.Len, core.Trunc(fi.Sha, 12), len(m.Entry), m.EntrySha[:12]),
					map[string]any{"module": m.Name, "order": descs[i], "replay": "compile the module set in the stated order in one process with one NewCompilationCacheWithDir; compare entry files with those of one-module processes"})
			}
			c.Distinct("cases", "order|"+m.Name+"|"+descs[i])
		}
		if len(files) != len(d.mods) {
			c.Count("order_dir_file_count_differs", 1)
		}
		os.RemoveAll(dirs[i])
	}
	c.Extra("orders", descs)
}

// ---------------------------------------------------------------------------
// phase 4b: 8 concurrent writer processes on one key, one polling reader

func (d *driver) phaseConc() {
	c := d.c
	const writers = 8
	rounds := c.N(15, 120)
	// modules: the largest entries give the widest windows
	cands := append([]*modInfo(nil), d.mods...)
	sort.Slice(cands, func(i, j int) bool { return len(cands[i].Entry) > len(cands[j].Entry) })
	var pick []*modInfo
	for _, m := range cands {
		if m.Kind == "dwarf" && len(m.Entry) > 200000 {
			continue // seconds per compile: too slow for many rounds
		}
		pick = append(pick, m)
		if len(pick) == c.N(2, 4) {
			break
		}
	}
	for _, m := range d.mods {
		if m.Name == "const42" {
			pick = append(pick, m)
		}
	}
	for _, m := range pick {
		barrier := d.newDir("barrier")
		os.MkdirAll(barrier, 0o755)
		var dirs []string
		for r := 0; r < rounds; r++ {
			dd := d.newDir("conc")
			os.MkdirAll(dd, 0o755)
			dirs = append(dirs, dd)
		}
		var cases []json.RawMessage
		for w := 0; w < writers; w++ {
			cases = append(cases, core.J(concJob{Role: "writer", ID: w, N: writers + 1, Mod: m.Name, Wasm: m.Wasm, Dirs: dirs, Barrier: barrier, Sub: m.Sub, Key: m.Key, Ref: m.EntryPath, Want: m.Want}))
		}
		cases = append(cases, core.J(concJob{Role: "reader", ID: writers, N: writers + 1, Mod: m.Name, Wasm: m.Wasm, Dirs: dirs, Barrier: barrier, Sub: m.Sub, Key: m.Key, Ref: m.EntryPath, Want: m.Want}))
		res := core.RunCases(c, "conc", cases, core.ChildOpts{Batch: 1, Par: writers + 1, TimeoutS: 3600, Procs: 2})
		complete := true
		maxWriters := 0
		for i, r := range res {
			role := "writer"
			if i == writers {
				role = "reader"
			}
			if r.Crash != nil {
				complete = false
				if r.Crash.Kind == "timeout" {
					c.Inconclusive("watchdog:conc")
				} else {
					c.Violate("conc:"+role+"-died:"+r.Crash.Kind+":"+firstWords(r.Crash.Detail, 4), fmt.Sprintf("module %s: %s", m.Name, r.Crash.Detail), map[string]any{"module": m.Name, "role": role, "crash": r.Crash})
				}
				continue
			}
			var o concOut
			json.Unmarshal(r.Out, &o)
			if o.GaveUp {
				complete = false
				c.Inconclusive("conc-barrier-gave-up")
				continue
			}
			if len(o.Errs) > 0 {
				c.Violate("conc:writer-compile-error", fmt.Sprintf("module %s: %v", m.Name, o.Errs), map[string]any{"module": m.Name, "errs": o.Errs})
			}
			if len(o.TraceDiff) > 0 {
				c.Violate("conc:writer-behaviour-differs", fmt.Sprintf("module %s: %s", m.Name, core.Trunc(o.TraceDiff[0], 300)), map[string]any{"module": m.Name, "diff": o.TraceDiff, "base": m.Trace})
			}
			if role == "reader" {
				c.Count("conc_reader_complete_reads", int64(o.Reads))
				c.Count("conc_reader_absent_polls", int64(o.Absent))
				c.Count("conc_reader_rounds_entry_seen_while_writers_active", int64(o.EarlyRounds))
				if len(o.Partial) > 0 {
					c.Violate("conc:reader-saw-partial-entry-under-final-name", fmt.Sprintf("module %s: %v", m.Name, o.Partial), map[string]any{"module": m.Name, "reads": o.Partial,
						"replay": "8 processes compile the module with the same NewCompilationCacheWithDir directory at once; a 9th process polls os.ReadFile(<dir>/<version dir>/<key>)"})
				}
				if len(o.ReadErrs) > 0 {
					c.Distinct("conc_reader_errors", strings.Join(o.ReadErrs, "; "))
				}
			} else {
				c.Count("conc_writer_adds", int64(o.WroteRounds))
				c.Count("conc_writer_rounds", int64(o.Rounds))
				if o.WroteRounds > maxWriters {
					maxWriters = o.WroteRounds
				}
			}
		}
		// every round directory: the final file is the complete entry, nothing but it
		for r, dd := range dirs {
			files := listDir(filepath.Join(dd, m.Sub))
			if complete {
				d.evals++
				c.Count("conc_rounds", 1)
				c.Count("entries_compared", 1)
				fi, ok := files[m.Key]
				if !ok || fi.Sha != m.EntrySha {
					c.Violate("nondeterministic-entry:concurrent-writers", fmt.Sprintf("module %s round %d: after 8 concurrent writers the entry is present=%v len=%d (reference %d)", m.Name, r, ok, fi.Len, len(m.Entry)),
						map[string]any{"module": m.Name, "files": files})
				}
				for name := range files {
					if name != m.Key {
						c.Count("conc_leftover_files", 1)
						if !strings.HasSuffix(name, ".tmp") {
							c.Violate("conc:unexpected-file-name", fmt.Sprintf("module %s: %q", m.Name, name), map[string]any{"module": m.Name, "files": files})
						}
					}
				}
				c.Distinct("cases", fmt.Sprintf("conc|%s|%d", m.Name, r))
			}
			os.RemoveAll(dd)
		}
		os.RemoveAll(barrier)
		if m == pick[0] {
			c.Sample(map[string]any{"what": "concurrent writers", "module": m.Name, "entry_len": len(m.Entry), "writers": writers, "rounds": rounds, "all_participants_finished": complete, "max_rounds_in_which_one_writer_reached_Add": maxWriters})
		}
		c.Distinct("conc_modules", fmt.Sprintf("%s(entry=%dB)", m.Name, len(m.Entry)))
	}
	if c.Counter("conc_rounds") > 0 && c.Counter("conc_writer_adds") <= c.Counter("conc_rounds") {
		// never more than one writer per round reached Add: no concurrency was exercised
		c.Inconclusive("conc-writers-never-overlapped")
	}
	c.Extra("concurrency", map[string]any{"writers": writers, "rounds_per_module": rounds})
}

// ---------------------------------------------------------------------------
// phase 5: single-byte corruptions (information only, unless the process dies)

func (d *driver) phaseCorrupt() {
	c := d.c
	rng := core.NewRng(c.Seed, 1303)
	per := c.N(24, 160)
	var cases []json.RawMessage
	var jobs []useJob
	var exps []useExpect
	for _, m := range d.mods {
		n := len(m.Entry)
		set := map[int]bool{}
		// some bytes of every field, then random ones
		for _, b := range m.L.boundaries() {
			if b < n {
				set[b] = true
			}
			if b+1 < n && rng.Bool() {
				set[b+1] = true
			}
		}
		for len(set) < per && len(set) < n {
			set[rng.Intn(n)] = true
		}
		offs := make([]int, 0, len(set))
		for o := range set {
			offs = append(offs, o)
		}
		sort.Ints(offs)
		for _, off := range offs {
			x := byte(1) << uint(rng.Intn(8))
			if rng.Chance(1, 3) {
				x = byte(1 + rng.Intn(255))
			}
			reg := m.L.region(off)
			j := useJob{Mod: m.Name, Wasm: m.Wasm, Dir: d.newDir("corrupt"), Sub: m.Sub, Key: m.Key, Want: m.Want, Rounds: 1, Cleanup: true,
				Prep: &prep{Src: m.EntryPath, Trunc: -1, FlipOff: off, FlipXor: x}, Tag: fmt.Sprintf("byte %d (%s) xor %#x", off, reg, x)}
			jobs = append(jobs, j)
			cases = append(cases, core.J(j))
			exps = append(exps, useExpect{kind: "corrupt", param: "region=" + reg, mod: m, hasBad: true, info: true})
		}
	}
	res := core.RunCases(c, "use", cases, core.ChildOpts{Batch: 6, TimeoutS: 600})
	for i, r := range res {
		d.decideUse(exps[i], jobs[i], r)
		c.Count("corruptions_tried", 1)
		c.Count("corrupt_"+exps[i].param, 1)
	}
	c.Extra("corruption", "single-byte corruptions are sampled, not exhaustive; outcomes are in counters corrupt_outcome_round0:* (information only: the property covers truncation and version skew, not arbitrary corruption; process deaths are counted per damaged field in set corrupt_death_kinds)")
}
