package c13

// I/O faults during fileCache.Add (the writer stays alive): (a) the content
// reader returns an error after exactly k bytes (k over the same grid as the
// copy-k deaths), (b) real write errors: RLIMIT_FSIZE smaller than the entry
// with SIGXFSZ ignored, so write(2) returns EFBIG after the limit.
// Oracle = the directory monitor (nothing but the complete entry may be
// visible under the final name) + the next-process oracle. The faulting
// CompileModule may fail (the unchanged tree returns the Add error) or
// succeed; if it succeeds the compiled module must behave as itself.

import (
	"context"
	"encoding/json"
	"errors"
	"fmt"
	"io"
	"os"
	"os/signal"
	"path/filepath"
	"strings"
	"syscall"
	"time"

	"github.com/tetratelabs/wazero"
	"github.com/tetratelabs/wazero/internal/verifhook"
	"github.com/tetratelabs/wazero/verifharness/core"
)

type faultJob struct {
	Mod   string `json:"mod"`
	Wasm  string `json:"wasm"`
	Dir   string `json:"dir"`
	Sub   string `json:"sub"`
	Kind  string `json:"kind"` // reader-error | write-error-EFBIG
	K     int    `json:"k"`    // bytes delivered before the error / RLIMIT_FSIZE in bytes
	Err   string `json:"err"`  // reader-error: unexpected-eof | custom
	Want  string `json:"want"`
	Probe string `json:"probe"` // write-error: file outside the cache directory used to prove the limit is enforced
}

type faultOut struct {
	SetupErr   string              `json:"setup_err,omitempty"`
	Injected   bool                `json:"injected"` // reader: the error was returned to io.Copy; fsize: the limit was in force (probe write failed with EFBIG)
	AddReached bool                `json:"add_reached"`
	CompileErr string              `json:"compile_err,omitempty"`
	TraceOK    bool                `json:"trace_ok"`
	Trace      string              `json:"trace,omitempty"`
	Files      map[string]fileInfo `json:"files"`
}

var errInjected = errors.New("verif: injected read error")

type errReader struct {
	r        io.Reader
	k, done  int
	chunk    int
	err      error
	injected *bool
}

func (e *errReader) Read(p []byte) (int, error) {
	if e.done >= e.k {
		*e.injected = true
		return 0, e.err
	}
	n := e.k - e.done
	if n > len(p) {
		n = len(p)
	}
	if e.chunk > 0 && n > e.chunk {
		n = e.chunk
	}
	m, err := io.ReadFull(e.r, p[:n])
	e.done += m
	if err == io.ErrUnexpectedEOF || err == io.EOF {
		return m, io.EOF
	}
	return m, err
}

func doFault(j faultJob) (o faultOut) {
	wasm, err := os.ReadFile(j.Wasm)
	if err != nil {
		o.SetupErr = err.Error()
		return
	}
	ctx := context.Background()
	cache, err := wazero.NewCompilationCacheWithDir(j.Dir)
	if err != nil {
		o.SetupErr = err.Error()
		return
	}
	defer cache.Close(ctx)
	rt := wazero.NewRuntimeWithConfig(ctx, wazero.NewRuntimeConfigCompiler().WithCompilationCache(cache))
	defer rt.Close(ctx)
	if err := prepareRuntime(ctx, rt, wasm); err != nil {
		o.SetupErr = err.Error()
		return
	}
	point := func(name string) {
		if name == "filecache.add.tmp-created" {
			o.AddReached = true
		}
	}
	var old syscall.Rlimit
	switch j.Kind {
	case "reader-error":
		e := errInjected
		if j.Err == "unexpected-eof" {
			e = io.ErrUnexpectedEOF
		}
		verifhook.SetHandlers(point, func(name string, r io.Reader) io.Reader {
			if name != copyPoint {
				return r
			}
			chunk := 0
			if j.K%2 == 1 {
				chunk = 7
			}
			return &errReader{r: r, k: j.K, chunk: chunk, err: e, injected: &o.Injected}
		})
	default:
		verifhook.SetHandlers(point, nil)
		signal.Ignore(syscall.SIGXFSZ)
		if err := syscall.Getrlimit(syscall.RLIMIT_FSIZE, &old); err != nil {
			o.SetupErr = "getrlimit: " + err.Error()
			return
		}
		if err := syscall.Setrlimit(syscall.RLIMIT_FSIZE, &syscall.Rlimit{Cur: uint64(j.K), Max: old.Max}); err != nil {
			o.SetupErr = "setrlimit: " + err.Error()
			return
		}
	}
	cm, cerr := rt.CompileModule(ctx, wasm)
	verifhook.SetHandlers(nil, nil)
	if j.Kind != "reader-error" {
		// the limit must have been in force: a probe write beyond it fails with EFBIG
		if f, err := os.Create(j.Probe); err == nil {
			_, werr := f.Write(make([]byte, j.K+1))
			f.Close()
			o.Injected = errors.Is(werr, syscall.EFBIG)
			os.Remove(j.Probe)
		}
		if err := syscall.Setrlimit(syscall.RLIMIT_FSIZE, &old); err != nil {
			// results could not be written anyway
			os.Exit(97)
		}
	}
	if cerr != nil {
		o.CompileErr = cleanErr(cerr)
	} else {
		tr := runScript(ctx, rt, cm)
		if shaHex([]byte(tr)) == j.Want {
			o.TraceOK = true
		} else {
			o.Trace = core.Trunc(tr, 6000)
		}
	}
	o.Files = listDir(filepath.Join(j.Dir, j.Sub))
	return
}

// copyKs: the copied-byte grid shared by the death and the fault enumeration.
func (d *driver) copyKs(mi int, m *modInfo) (ks []int, exhaustive bool) {
	c := d.c
	fullIdx := int(uint64(c.Seed) % uint64(len(d.mods)))
	full := !c.Quick() || mi == fullIdx || m.Name == "const42"
	ks, exhaustive = d.ksFor(m, full, mi)
	if c.Quick() && full && len(m.Entry) <= 400 {
		ks = ks[:0]
		for k := 0; k < len(m.Entry); k++ {
			ks = append(ks, k)
		}
		exhaustive = true
	}
	return
}

func (d *driver) phaseFault() {
	c := d.c
	t0 := time.Now()
	rng := core.NewRng(c.Seed, 1305)
	type fcase struct {
		m   *modInfo
		job faultJob
	}
	var fcs []fcase
	type finfo struct {
		Module     string `json:"module"`
		EntryLen   int    `json:"entry_len"`
		ReaderKs   int    `json:"reader_error_ks"`
		Exhaustive bool   `json:"exhaustive"`
		FsizeKs    []int  `json:"rlimit_fsize_values"`
	}
	var infos []finfo
	for mi, m := range d.mods {
		ks, ex := d.copyKs(mi, m)
		for _, k := range ks {
			ek := "custom"
			if (k/2)%2 == 0 {
				ek = "unexpected-eof"
			}
			fcs = append(fcs, fcase{m, faultJob{Kind: "reader-error", K: k, Err: ek}})
		}
		n := len(m.Entry)
		set := map[int]bool{}
		for i := 0; i < c.N(2, 12) && len(set) < n; i++ {
			v := rng.Intn(n)
			if i == 1 && rng.Chance(1, 4) {
				v = 0
			}
			set[v] = true
		}
		var fk []int
		for v := range set {
			fk = append(fk, v)
		}
		for _, v := range fk {
			fcs = append(fcs, fcase{m, faultJob{Kind: "write-error-EFBIG", K: v}})
		}
		infos = append(infos, finfo{m.Name, n, len(ks), ex, fk})
	}
	var rcases, fcasesJ []json.RawMessage
	var ridx, fidx []int
	for i := range fcs {
		fc := &fcs[i]
		dir := d.newDir("fault")
		os.MkdirAll(dir, 0o755)
		fc.job.Mod, fc.job.Wasm, fc.job.Dir, fc.job.Sub, fc.job.Want = fc.m.Name, fc.m.Wasm, dir, fc.m.Sub, fc.m.Want
		fc.job.Probe = dir + ".probe"
		if fc.job.Kind == "reader-error" {
			rcases = append(rcases, core.J(fc.job))
			ridx = append(ridx, i)
		} else {
			fcasesJ = append(fcasesJ, core.J(fc.job))
			fidx = append(fidx, i)
		}
	}
	results := make([]core.CaseResult, len(fcs))
	for n, r := range core.RunCases(c, "fault", rcases, core.ChildOpts{Batch: 8, TimeoutS: 600}) {
		results[ridx[n]] = r
	}
	// the file size limit is process-wide: one or two cases per process
	for n, r := range core.RunCases(c, "fault", fcasesJ, core.ChildOpts{Batch: 2, TimeoutS: 600}) {
		results[fidx[n]] = r
	}
	var useCases []json.RawMessage
	var useJobs []useJob
	var useExps []useExpect
	sampled := map[string]bool{}
	for i, fc := range fcs {
		r := results[i]
		m, j := fc.m, fc.job
		tag := fmt.Sprintf("%s k=%d", j.Kind, j.K)
		if j.Kind == "reader-error" {
			tag += " err=" + j.Err
		}
		if r.Crash != nil {
			if r.Crash.Kind == "timeout" {
				c.Inconclusive("watchdog:fault")
			} else {
				c.Violate("fault:writer-died:"+j.Kind+":"+r.Crash.Kind+":"+firstWords(r.Crash.Detail, 4), fmt.Sprintf("module %s, %s: %s", m.Name, tag, r.Crash.Detail),
					map[string]any{"module": m.Name, "fault": tag, "crash": r.Crash, "module_and_entry": m.blob()})
			}
			os.RemoveAll(j.Dir)
			continue
		}
		var o faultOut
		if err := json.Unmarshal(r.Out, &o); err != nil || o.SetupErr != "" {
			c.Inconclusive("bad-child-output:fault")
			os.RemoveAll(j.Dir)
			continue
		}
		if !o.Injected || !o.AddReached {
			c.Count("fault_not_injected:"+j.Kind, 1)
			c.Inconclusive("fault-not-injected")
			os.RemoveAll(j.Dir)
			continue
		}
		d.evals++
		c.Count("fault_injected:"+j.Kind, 1)
		c.Distinct("cases", "fault|"+m.Name+"|"+tag)
		wit := map[string]any{"module": m.Name, "fault": tag, "observed": o, "complete_len": len(m.Entry), "complete_sha": m.EntrySha, "module_and_entry": m.blob(),
			"replay": "reader-error: verifhook.SetHandlers(nil, reader) where the reader for \"filecache.add.copy\" returns the error after k bytes; write-error-EFBIG: signal.Ignore(SIGXFSZ) + Setrlimit(RLIMIT_FSIZE, k) before CompileModule with NewCompilationCacheWithDir; then list <dir>/<version dir>"}
		// the faulting CompileModule: error or correct behaviour
		switch {
		case o.CompileErr != "":
			c.Count("fault_compile_outcome:error", 1)
			c.Distinct("fault_compile_error_texts", j.Kind+": "+core.Trunc(errClass(o.CompileErr), 80))
		case o.TraceOK:
			c.Count("fault_compile_outcome:succeeded-and-correct", 1)
		default:
			c.Violate("fault:faulting-compile-succeeded-but-behaves-differently:"+j.Kind, fmt.Sprintf("module %s, %s: %s", m.Name, tag, firstDiff(m.Trace, o.Trace)), wit)
		}
		// monitor 1
		ntmp, nfinal := 0, 0
		for name, fi := range o.Files {
			switch {
			case strings.HasSuffix(name, ".tmp"):
				ntmp++
			case name == m.Key:
				nfinal++
				c.Count("entries_compared", 1)
				if fi.Sha != m.EntrySha {
					c.Violate("fault:final-name-holds-incomplete-entry:"+j.Kind,
						fmt.Sprintf("module %s: after Add hit %s (CompileModule error: %q) the file under the final name has %d bytes; the complete entry has %d", m.Name, tag, core.Trunc(o.CompileErr, 80), fi.Len, len(m.Entry)), wit)
				}
			default:
				c.Violate("fault:unexpected-file-name", fmt.Sprintf("module %s after %s: file %q", m.Name, tag, name), wit)
			}
		}
		c.Distinct("dir_states_after_fault", fmt.Sprintf("%s: tmp=%d final=%d compile_error=%v", j.Kind, ntmp, nfinal, o.CompileErr != ""))
		if !sampled[j.Kind] {
			sampled[j.Kind] = true
			c.Sample(map[string]any{"what": "I/O fault in Add", "module": m.Name, "fault": tag, "entry_len": len(m.Entry), "faulting_CompileModule_error": core.Trunc(o.CompileErr, 160), "files_after": len(o.Files)})
		}
		uj := useJob{Mod: m.Name, Wasm: m.Wasm, Dir: j.Dir, Sub: m.Sub, Key: m.Key, Want: m.Want, Rounds: 2, Cleanup: true, Tag: "after " + tag}
		useJobs = append(useJobs, uj)
		useCases = append(useCases, core.J(uj))
		useExps = append(useExps, useExpect{kind: "fault", param: j.Kind, mod: m, noErr: true})
	}
	for i, r := range core.RunCases(c, "use", useCases, core.ChildOpts{Batch: 8, TimeoutS: 600}) {
		d.decideUse(useExps[i], useJobs[i], r)
		os.RemoveAll(useJobs[i].Dir)
	}
	for _, k := range []string{"reader-error", "write-error-EFBIG"} {
		if c.Counter("fault_injected:"+k) == 0 {
			c.Inconclusive("fault-never-injected:" + k)
			d.broken = "I/O fault " + k + " was never injected"
		}
	}
	allEx := true
	for _, i := range infos {
		if !i.Exhaustive {
			allEx = false
		}
	}
	c.Extra("io_faults", map[string]any{"per_module": infos, "reader_error_every_k_for_all_modules": allEx, "kinds": []string{"reader-error (io.ErrUnexpectedEOF / custom error after k bytes)", "write-error-EFBIG (RLIMIT_FSIZE=k, SIGXFSZ ignored)"},
		"meaning": "exhaustive=true: the reader error was injected after every k in 0..len-1 for that module; RLIMIT_FSIZE values are PRNG-sampled", "phase_s": time.Since(t0).Seconds()})
}
