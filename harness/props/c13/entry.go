package c13

import (
	"crypto/sha256"
	"encoding/binary"
	"encoding/hex"
	"fmt"
	"hash/crc32"
	"os"
	"sort"
)

// layout is the harness's own reading of a wazevo cache entry (format from
// internal/engine/wazevo/engine_cache.go serializeCompiledModule):
//
//	"WAZEVO" | verlen(1) | version | nfuncs(4) | offsets(8*n) | codelen(8) | code | crc32c(4) | smflag(1) [| smlen(8) | pairs(16*l)]
type layout struct {
	VerLen     int
	Version    string
	NFuncsOff  int
	NFuncs     int
	OffsetsOff int
	CodeLenOff int
	CodeOff    int
	CodeLen    int
	CRCOff     int
	SMFlagOff  int
	SMFlag     byte
	SMLenOff   int // -1 when absent
	SMPairsOff int
	SMLen      int
	Total      int
}

func parseEntry(b []byte) (l layout, err error) {
	l.SMLenOff = -1
	if len(b) < 7 || string(b[:6]) != "WAZEVO" {
		return l, fmt.Errorf("bad magic")
	}
	l.VerLen = int(b[6])
	p := 7 + l.VerLen
	if len(b) < p+4 {
		return l, fmt.Errorf("short header")
	}
	l.Version = string(b[7:p])
	l.NFuncsOff = p
	l.NFuncs = int(binary.LittleEndian.Uint32(b[p:]))
	p += 4
	l.OffsetsOff = p
	p += 8 * l.NFuncs
	if len(b) < p+8 {
		return l, fmt.Errorf("short offsets")
	}
	l.CodeLenOff = p
	l.CodeLen = int(binary.LittleEndian.Uint64(b[p:]))
	p += 8
	l.CodeOff = p
	p += l.CodeLen
	if len(b) < p+5 {
		return l, fmt.Errorf("short code")
	}
	l.CRCOff = p
	p += 4
	l.SMFlagOff = p
	l.SMFlag = b[p]
	p++
	if l.SMFlag == 1 {
		if len(b) < p+8 {
			return l, fmt.Errorf("short source map")
		}
		l.SMLenOff = p
		l.SMLen = int(binary.LittleEndian.Uint64(b[p:]))
		p += 8
		l.SMPairsOff = p
		p += 16 * l.SMLen
	}
	l.Total = p
	if p != len(b) {
		return l, fmt.Errorf("entry length %d, layout says %d", len(b), p)
	}
	return l, nil
}

// region names the field that contains byte offset off (for a truncation at
// length t: the field in which the file ends = region(t), "complete" at Total).
func (l layout) region(off int) string {
	switch {
	case off < 6:
		return "magic"
	case off < 7:
		return "verlen"
	case off < l.NFuncsOff:
		return "version"
	case off < l.OffsetsOff:
		return "nfuncs"
	case off < l.CodeLenOff:
		return "func-offsets"
	case off < l.CodeOff:
		return "codelen"
	case off < l.CRCOff:
		return "code"
	case off < l.SMFlagOff:
		return "crc"
	case off < l.SMFlagOff+1:
		return "smflag"
	case l.SMLenOff >= 0 && off < l.SMPairsOff:
		return "smlen"
	case off < l.Total:
		return "sourcemap"
	}
	return "end"
}

// boundaries: the first offset of every field plus the end.
func (l layout) boundaries() []int {
	bs := []int{0, 6, 7, l.NFuncsOff, l.OffsetsOff, l.CodeLenOff, l.CodeOff, l.CRCOff, l.SMFlagOff, l.SMFlagOff + 1, l.Total}
	if l.SMLenOff >= 0 {
		bs = append(bs, l.SMLenOff, l.SMPairsOff)
	}
	for i := 0; i < l.NFuncs && i < 3; i++ {
		bs = append(bs, l.OffsetsOff+8*i)
	}
	return bs
}

var castagnoli = crc32.MakeTable(crc32.Castagnoli)

// prep says how a child fabricates a damaged entry from a complete one.
type prep struct {
	Src     string  `json:"src"`
	Trunc   int     `json:"trunc"`    // -1 = keep full length
	FlipOff int     `json:"flip_off"` // -1 = none
	FlipXor byte    `json:"flip_xor"`
	Version *string `json:"version,omitempty"` // replace the version string (and its length byte)
	Poison  bool    `json:"poison,omitempty"`  // overwrite code with int3/brk filler and fix the CRC
}

var srcCache = map[string][]byte{}

func (p *prep) build() ([]byte, error) {
	b, ok := srcCache[p.Src]
	if !ok {
		var err error
		if b, err = os.ReadFile(p.Src); err != nil {
			return nil, err
		}
		if len(srcCache) < 8 {
			srcCache[p.Src] = b
		}
	}
	return p.apply(b)
}

func (p *prep) apply(src []byte) ([]byte, error) {
	b := append([]byte(nil), src...)
	if p.Poison || p.Version != nil {
		l, err := parseEntry(b)
		if err != nil {
			return nil, err
		}
		if p.Poison {
			for i := 0; i < l.CodeLen; i++ {
				b[l.CodeOff+i] = 0xCC // int3 on amd64; an undefined/brk-like pattern elsewhere
			}
			binary.LittleEndian.PutUint32(b[l.CRCOff:], crc32.Checksum(b[l.CodeOff:l.CodeOff+l.CodeLen], castagnoli))
		}
		if p.Version != nil {
			v := *p.Version
			nb := append([]byte(nil), b[:6]...)
			nb = append(nb, byte(len(v)))
			nb = append(nb, v...)
			nb = append(nb, b[l.NFuncsOff:]...)
			b = nb
		}
	}
	if p.FlipOff >= 0 && p.FlipOff < len(b) {
		b[p.FlipOff] ^= p.FlipXor
	}
	if p.Trunc >= 0 && p.Trunc < len(b) {
		b = b[:p.Trunc]
	}
	return b, nil
}

func shaHex(b []byte) string {
	h := sha256.Sum256(b)
	return hex.EncodeToString(h[:])
}

type fileInfo struct {
	Len int    `json:"len"`
	Sha string `json:"sha"`
}

// listDir reports every regular file in dir (name -> len, sha256).
func listDir(dir string) map[string]fileInfo {
	out := map[string]fileInfo{}
	ents, err := os.ReadDir(dir)
	if err != nil {
		return out
	}
	for _, e := range ents {
		if e.IsDir() {
			out[e.Name()+"/"] = fileInfo{}
			continue
		}
		b, err := os.ReadFile(dir + "/" + e.Name())
		if err != nil {
			out[e.Name()] = fileInfo{Len: -1}
			continue
		}
		out[e.Name()] = fileInfo{Len: len(b), Sha: shaHex(b)}
	}
	return out
}

func sortedKeys[V any](m map[string]V) []string {
	ks := make([]string, 0, len(m))
	for k := range m {
		ks = append(ks, k)
	}
	sort.Strings(ks)
	return ks
}

func isHexKey(name string) bool {
	if len(name) != 64 {
		return false
	}
	for _, c := range name {
		if !(c >= '0' && c <= '9' || c >= 'a' && c <= 'f') {
			return false
		}
	}
	return true
}
