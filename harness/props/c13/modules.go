package c13

import (
	"fmt"
	"os"
	"path/filepath"

	"github.com/tetratelabs/wazero/verifharness/core"
	"github.com/tetratelabs/wazero/verifharness/wenc"
)

// modSpec is one module of the workload set.
type modSpec struct {
	Name string
	Wasm []byte
	Kind string // wenc | gen | spectest | dwarf
}

const (
	i32 = wenc.I32
	i64 = wenc.I64
	f32 = wenc.F32
	f64 = wenc.F64
)

func vt(ts ...wenc.ValType) []wenc.ValType { return ts }

func code() *wenc.Code { return &wenc.Code{} }

func exportMem(m *wenc.Module, name string) {
	m.Exports = append(m.Exports, wenc.Export{Name: name, Kind: wenc.ExtMemory, Idx: 0})
}

func exportGlobal(m *wenc.Module, name string, idx uint32) {
	m.Exports = append(m.Exports, wenc.Export{Name: name, Kind: wenc.ExtGlobal, Idx: idx})
}

// nameSection encodes a "name" custom section payload with function names.
func nameSection(modName string, fn map[uint32]string, order []uint32) []byte {
	var out []byte
	// module name subsection
	var sub []byte
	sub = wenc.U32(sub, uint32(len(modName)))
	sub = append(sub, modName...)
	out = append(out, 0)
	out = wenc.U32(out, uint32(len(sub)))
	out = append(out, sub...)
	sub = nil
	sub = wenc.U32(sub, uint32(len(order)))
	for _, i := range order {
		sub = wenc.U32(sub, i)
		sub = wenc.U32(sub, uint32(len(fn[i])))
		sub = append(sub, fn[i]...)
	}
	out = append(out, 1)
	out = wenc.U32(out, uint32(len(sub)))
	out = append(out, sub...)
	return out
}

// builtModules returns the fixed wenc-built part of the module set.
func builtModules() []modSpec {
	var out []modSpec
	add := func(name string, m *wenc.Module) {
		out = append(out, modSpec{Name: name, Wasm: m.Encode(), Kind: "wenc"})
	}

	// 1. completely empty module
	add("empty", &wenc.Module{})

	// 2. no functions: memory, data, globals, table
	{
		m := &wenc.Module{}
		m.Mems = []wenc.Limits{{Min: 1, Max: 3, HasMax: true}}
		m.Tables = []wenc.TableType{{Elem: wenc.FuncRef, Lim: wenc.Limits{Min: 4}}}
		m.Globals = []wenc.Global{
			{Type: wenc.GlobalType{Type: i32}, Init: wenc.ConstI32(-7)},
			{Type: wenc.GlobalType{Type: i64, Mutable: true}, Init: wenc.ConstI64(1 << 40)},
			{Type: wenc.GlobalType{Type: f64}, Init: wenc.ConstF64(0x400921fb54442d18)},
		}
		m.Datas = []wenc.Data{{Offset: wenc.ConstI32(16), Bytes: []byte("no functions here")}}
		exportMem(m, "memory")
		exportGlobal(m, "g0", 0)
		exportGlobal(m, "g1", 1)
		exportGlobal(m, "g2", 2)
		add("nofuncs", m)
	}

	// 3. one constant function
	{
		m := &wenc.Module{}
		m.ExportFunc("f", m.AddFunc(nil, vt(i32), nil, code().I32Const(42).End().B))
		add("const42", m)
	}

	// 4. add
	{
		m := &wenc.Module{}
		m.ExportFunc("add", m.AddFunc(vt(i32, i32), vt(i32), nil, code().LocalGet(0).LocalGet(1).Op(0x6a).End().B))
		m.ExportFunc("add64", m.AddFunc(vt(i64, i64), vt(i64), nil, code().LocalGet(0).LocalGet(1).Op(0x7c).End().B))
		add("add", m)
	}

	// 5. many functions, chained by calls (relocations)
	{
		m := &wenc.Module{}
		first := m.AddFunc(vt(i32), vt(i32), nil, code().LocalGet(0).I32Const(1).Op(0x6a).End().B)
		prev := first
		for i := 1; i < 300; i++ {
			c := code().LocalGet(0).I32Const(int32(i * 7)).Op(0x73).Call(prev)
			if i%3 == 0 {
				c.LocalGet(0).Op(0x6c)
			}
			prev = m.AddFunc(vt(i32), vt(i32), nil, c.End().B)
			if i%50 == 0 {
				m.ExportFunc(fmt.Sprintf("f%d", i), prev)
			}
		}
		m.ExportFunc("last", prev)
		add("manyfuncs", m)
	}

	// 6. one very long function
	{
		m := &wenc.Module{}
		c := code().LocalGet(0)
		for i := 0; i < 1500; i++ {
			c.I32Const(int32(i*2654435761 + 1))
			c.Op([]byte{0x6a, 0x73, 0x6c, 0x6b, 0x77, 0x72}[i%6])
		}
		m.ExportFunc("long", m.AddFunc(vt(i32), vt(i32), nil, c.End().B))
		add("longfunc", m)
	}

	// 7. memory: load/store, data segments, grow, size
	{
		m := &wenc.Module{}
		m.Mems = []wenc.Limits{{Min: 1, Max: 4, HasMax: true}}
		m.Datas = []wenc.Data{{Offset: wenc.ConstI32(0), Bytes: []byte{1, 2, 3, 4, 5, 6, 7, 8, 9, 10, 11, 12, 13, 14, 15, 16}},
			{Offset: wenc.ConstI32(1000), Bytes: []byte("hello, cache")}}
		m.ExportFunc("load32", m.AddFunc(vt(i32), vt(i32), nil, code().LocalGet(0).Mem(0x28, 2, 0).End().B))
		m.ExportFunc("load64off", m.AddFunc(vt(i32), vt(i64), nil, code().LocalGet(0).Mem(0x29, 3, 4).End().B))
		m.ExportFunc("load8s", m.AddFunc(vt(i32), vt(i32), nil, code().LocalGet(0).Mem(0x2c, 0, 1000).End().B))
		m.ExportFunc("store", m.AddFunc(vt(i32, i32), nil, nil, code().LocalGet(0).LocalGet(1).Mem(0x36, 2, 0).End().B))
		m.ExportFunc("storef", m.AddFunc(vt(i32, f64), nil, nil, code().LocalGet(0).LocalGet(1).Mem(0x39, 3, 64).End().B))
		m.ExportFunc("grow", m.AddFunc(vt(i32), vt(i32), nil, code().LocalGet(0).MemoryGrow().End().B))
		m.ExportFunc("size", m.AddFunc(nil, vt(i32), nil, code().MemorySize().End().B))
		m.ExportFunc("oob", m.AddFunc(nil, vt(i32), nil, code().I32Const(-4).Mem(0x28, 2, 8).End().B))
		exportMem(m, "memory")
		add("memory", m)
	}

	// 8. table + call_indirect
	{
		m := &wenc.Module{}
		var fs []uint32
		for i := 0; i < 5; i++ {
			fs = append(fs, m.AddFunc(vt(i32), vt(i32), nil, code().LocalGet(0).I32Const(int32(100*(i+1))).Op(0x6a).End().B))
		}
		other := m.AddFunc(vt(i64), vt(i64), nil, code().LocalGet(0).End().B)
		m.Tables = []wenc.TableType{{Elem: wenc.FuncRef, Lim: wenc.Limits{Min: 8, Max: 8, HasMax: true}}}
		m.Elems = []wenc.Elem{{Offset: wenc.ConstI32(0), FuncIdx: append(append([]uint32{}, fs...), other)}}
		ti := m.AddType(vt(i32), vt(i32))
		m.ExportFunc("dispatch", m.AddFunc(vt(i32, i32), vt(i32), nil, code().LocalGet(1).LocalGet(0).CallIndirect(ti, 0).End().B))
		add("table", m)
	}

	// 9. globals of every type
	{
		m := &wenc.Module{}
		m.Globals = []wenc.Global{
			{Type: wenc.GlobalType{Type: i32, Mutable: true}, Init: wenc.ConstI32(10)},
			{Type: wenc.GlobalType{Type: i64, Mutable: true}, Init: wenc.ConstI64(-20)},
			{Type: wenc.GlobalType{Type: f32, Mutable: true}, Init: wenc.ConstF32(0x3fc00000)},
			{Type: wenc.GlobalType{Type: f64, Mutable: true}, Init: wenc.ConstF64(0xc004000000000000)},
			{Type: wenc.GlobalType{Type: i32}, Init: wenc.ConstI32(0x7fffffff)},
		}
		m.ExportFunc("bump", m.AddFunc(vt(i32), vt(i32), nil, code().GlobalGet(0).LocalGet(0).Op(0x6a).GlobalSet(0).GlobalGet(0).GlobalGet(4).Op(0x73).End().B))
		m.ExportFunc("bump64", m.AddFunc(vt(i64), vt(i64), nil, code().GlobalGet(1).LocalGet(0).Op(0x7e).GlobalSet(1).GlobalGet(1).End().B))
		m.ExportFunc("fl", m.AddFunc(vt(f32, f64), vt(f64), nil,
			code().GlobalGet(2).LocalGet(0).Op(0x92).GlobalSet(2).GlobalGet(3).LocalGet(1).Op(0xa2).GlobalSet(3).GlobalGet(2).Op(0xbb).GlobalGet(3).Op(0xa0).End().B))
		for i := uint32(0); i < 5; i++ {
			exportGlobal(m, fmt.Sprintf("g%d", i), i)
		}
		add("globals", m)
	}

	// 10. start function writing memory; a non-exported function
	{
		m := &wenc.Module{}
		m.Mems = []wenc.Limits{{Min: 1}}
		helper := m.AddFunc(vt(i32), nil, nil, code().LocalGet(0).LocalGet(0).I32Const(3).Op(0x6c).Mem(0x36, 2, 0).End().B)
		st := m.AddFunc(nil, nil, nil, code().I32Const(8).Call(helper).I32Const(100).Call(helper).End().B)
		m.Start = &st
		m.ExportFunc("peek", m.AddFunc(vt(i32), vt(i32), nil, code().LocalGet(0).Mem(0x28, 2, 0).End().B))
		exportMem(m, "memory")
		add("start", m)
	}

	// 11. recursion
	{
		m := &wenc.Module{}
		fac := uint32(0)
		c := code().LocalGet(0).Op(0x50).If(i64).I64Const(1).Else().LocalGet(0).LocalGet(0).I64Const(1).Op(0x7d).Call(fac).Op(0x7e).End().End()
		m.ExportFunc("fac", m.AddFunc(vt(i64), vt(i64), nil, c.B))
		fib := uint32(1)
		c = code().LocalGet(0).I32Const(2).Op(0x49).If(i32).LocalGet(0).Else().
			LocalGet(0).I32Const(1).Op(0x6b).Call(fib).LocalGet(0).I32Const(2).Op(0x6b).Call(fib).Op(0x6a).End().End()
		m.ExportFunc("fib", m.AddFunc(vt(i32), vt(i32), nil, c.B))
		// unbounded recursion: stack overflow error
		m.ExportFunc("runaway", m.AddFunc(nil, nil, nil, code().Call(2).End().B))
		add("recursion", m)
	}

	// 12. loop + br_table
	{
		m := &wenc.Module{}
		// sum 0..n-1 with a loop
		c := code().Block(0x40).Loop(0x40).LocalGet(1).LocalGet(0).Op(0x4f).BrIf(1).
			LocalGet(2).LocalGet(1).Op(0x6a).LocalSet(2).LocalGet(1).I32Const(1).Op(0x6a).LocalSet(1).Br(0).End().End().LocalGet(2).End()
		m.ExportFunc("sum", m.AddFunc(vt(i32), vt(i32), vt(i32, i32), c.B))
		c = code().Block(0x40).Block(0x40).Block(0x40).Block(0x40).LocalGet(0).BrTable([]uint32{0, 1, 2, 1, 0}, 3).End().
			I32Const(10).Return().End().I32Const(20).Return().End().I32Const(30).Return().End().I32Const(40).End()
		m.ExportFunc("sw", m.AddFunc(vt(i32), vt(i32), nil, c.B))
		add("control", m)
	}

	// 13. floats
	{
		m := &wenc.Module{}
		m.ExportFunc("f32ops", m.AddFunc(vt(f32, f32), vt(f32), nil,
			code().LocalGet(0).LocalGet(1).Op(0x95).Op(0x91).LocalGet(0).Op(0x90).Op(0x92).LocalGet(1).Op(0x98).LocalGet(0).Op(0x96).End().B))
		m.ExportFunc("f64ops", m.AddFunc(vt(f64, f64), vt(f64), nil,
			code().LocalGet(0).LocalGet(1).Op(0xa3).Op(0x9f).LocalGet(0).Op(0x9b).Op(0xa1).LocalGet(1).Op(0xa5).Op(0x9a).End().B))
		m.ExportFunc("conv", m.AddFunc(vt(f64, i32), vt(i64), nil,
			code().LocalGet(0).LocalGet(1).Op(0xb7).Op(0xa0).Op(0xbd).End().B))
		m.ExportFunc("trunc", m.AddFunc(vt(f32), vt(i32), nil, code().LocalGet(0).F32Const(0x4f000000).Op(0x94).Op(0xa8).End().B)) // traps: overflow
		m.ExportFunc("cmp", m.AddFunc(vt(f32, f64), vt(i32), nil,
			code().LocalGet(0).Op(0xbb).LocalGet(1).Op(0x63).LocalGet(0).F32Const(0x7fc00000).Op(0x5c).Op(0x6a).End().B))
		add("floats", m)
	}

	// 14. SIMD
	{
		m := &wenc.Module{}
		m.Mems = []wenc.Limits{{Min: 1}}
		c := code().LocalGet(0).Prefixed(0xfd, 17).V128Const(0x0000000200000001, 0x0000000400000003).Prefixed(0xfd, 174).
			LocalGet(1).Prefixed(0xfd, 17).Prefixed(0xfd, 181).Prefixed(0xfd, 27).Op(2)
		m.ExportFunc("lanes", m.AddFunc(vt(i32, i32), vt(i32), nil, c.End().B))
		c = code().I32Const(32).I32Const(0).Prefixed(0xfd, 0).U32(0).U32(0).LocalGet(0).Prefixed(0xfd, 18).Prefixed(0xfd, 81).Prefixed(0xfd, 11).U32(0).U32(0).
			I32Const(40).Mem(0x29, 3, 0)
		m.ExportFunc("viamem", m.AddFunc(vt(i64), vt(i64), nil, c.End().B))
		m.Datas = []wenc.Data{{Offset: wenc.ConstI32(0), Bytes: []byte("0123456789abcdef")}}
		exportMem(m, "memory")
		add("simd", m)
	}

	// 15. multi-value
	{
		m := &wenc.Module{}
		sw := m.AddFunc(vt(i32, i64), vt(i64, i32), nil, code().LocalGet(1).LocalGet(0).End().B)
		m.ExportFunc("swap", sw)
		m.ExportFunc("use", m.AddFunc(vt(i32, i64), vt(i64), nil, code().LocalGet(0).LocalGet(1).Call(sw).Op(0xad).Op(0x7c).End().B))
		m.ExportFunc("three", m.AddFunc(nil, vt(i32, f64, i64), nil, code().I32Const(1).F64(2.5).I64Const(-3).End().B))
		add("multivalue", m)
	}

	// 16. bulk memory
	{
		m := &wenc.Module{}
		m.Mems = []wenc.Limits{{Min: 1}}
		m.DataCount = true
		m.Datas = []wenc.Data{{Mode: 1, Bytes: []byte("passive-segment-bytes")}, {Offset: wenc.ConstI32(512), Bytes: []byte{0xaa, 0xbb}}}
		m.ExportFunc("init", m.AddFunc(vt(i32), nil, nil, code().LocalGet(0).I32Const(0).I32Const(21).Prefixed(0xfc, 8).U32(0).Op(0).End().B))
		m.ExportFunc("drop", m.AddFunc(nil, nil, nil, code().Prefixed(0xfc, 9).U32(0).End().B))
		m.ExportFunc("fill", m.AddFunc(vt(i32, i32), nil, nil, code().LocalGet(0).LocalGet(1).I32Const(64).Prefixed(0xfc, 11).Op(0).End().B))
		m.ExportFunc("copy", m.AddFunc(vt(i32, i32), nil, nil, code().LocalGet(0).LocalGet(1).I32Const(32).Prefixed(0xfc, 10).Op(0, 0).End().B))
		exportMem(m, "memory")
		add("bulk", m)
	}

	// 17. reference types
	{
		m := &wenc.Module{}
		f0 := m.AddFunc(nil, vt(i32), nil, code().I32Const(7).End().B)
		f1 := m.AddFunc(nil, vt(i32), nil, code().I32Const(9).End().B)
		m.Tables = []wenc.TableType{{Elem: wenc.FuncRef, Lim: wenc.Limits{Min: 2, Max: 10, HasMax: true}}, {Elem: wenc.ExternRef, Lim: wenc.Limits{Min: 1}}}
		m.Elems = []wenc.Elem{{Mode: 2, FuncIdx: []uint32{f0, f1}}}
		ti := m.AddType(nil, vt(i32))
		m.ExportFunc("set", m.AddFunc(vt(i32, i32), nil, nil,
			code().LocalGet(0).LocalGet(1).If(wenc.FuncRef).RefFunc(f1).Else().RefFunc(f0).End().TableSet(0).End().B))
		m.ExportFunc("call", m.AddFunc(vt(i32), vt(i32), nil, code().LocalGet(0).CallIndirect(ti, 0).End().B))
		m.ExportFunc("isnull", m.AddFunc(vt(i32), vt(i32), nil, code().LocalGet(0).TableGet(0).RefIsNull().End().B))
		m.ExportFunc("grow", m.AddFunc(vt(i32), vt(i32), nil, code().RefNull(wenc.FuncRef).LocalGet(0).Prefixed(0xfc, 15).U32(0).End().B))
		m.ExportFunc("size", m.AddFunc(nil, vt(i32), nil, code().Prefixed(0xfc, 16).U32(0).End().B))
		add("reftypes", m)
	}

	// 18. sign extension + saturating truncation
	{
		m := &wenc.Module{}
		m.ExportFunc("ext", m.AddFunc(vt(i32, i64), vt(i64), nil,
			code().LocalGet(0).Op(0xc0).Op(0xac).LocalGet(1).Op(0xc3).Op(0x7c).LocalGet(1).Op(0xc4).Op(0x85).End().B))
		m.ExportFunc("sat", m.AddFunc(vt(f32, f64), vt(i64), nil,
			code().LocalGet(0).F32Const(0x5f000000).Op(0x94).Prefixed(0xfc, 0).Op(0xac).LocalGet(1).F64Const(0x7ff8000000000000).Op(0xa0).Prefixed(0xfc, 6).Op(0x7c).End().B))
		add("signext-sat", m)
	}

	// 19. traps with a name section (stack traces carry names)
	{
		m := &wenc.Module{}
		m.Mems = []wenc.Limits{{Min: 1}}
		inner := m.AddFunc(vt(i32), vt(i32), nil, code().I32Const(100).LocalGet(0).Op(0x6d).End().B)
		mid := m.AddFunc(vt(i32), vt(i32), nil, code().LocalGet(0).I32Const(3).Op(0x6b).Call(inner).End().B)
		m.ExportFunc("div", mid)
		un := m.AddFunc(nil, nil, nil, code().Unreachable().End().B)
		m.ExportFunc("unreachable", un)
		oob := m.AddFunc(vt(i32), vt(i32), nil, code().LocalGet(0).I32Const(65533).Op(0x6a).Mem(0x28, 0, 0).End().B)
		m.ExportFunc("oob", oob)
		m.Customs = []wenc.Custom{{Name: "name", Data: nameSection("trapmod", map[uint32]string{inner: "inner_div", mid: "middle", un: "boom", oob: "out_of_bounds"}, []uint32{inner, mid, un, oob})}}
		add("traps-named", m)
	}

	// 20. host imports
	{
		m := &wenc.Module{}
		h := m.ImportFunc("env", "h", vt(i32), vt(i32))
		h2 := m.ImportFunc("env", "h2", vt(i64, f64), vt(f64))
		m.ExportFunc("via", m.AddFunc(vt(i32), vt(i32), nil, code().LocalGet(0).Call(h).LocalGet(0).Call(h).Op(0x6c).End().B))
		m.ExportFunc("via2", m.AddFunc(vt(i64, f64), vt(f64), nil, code().LocalGet(0).LocalGet(1).Call(h2).LocalGet(1).Op(0xa0).End().B))
		// (re-exporting h itself is left out: calling a re-exported host function through the guest
		// panics in wazevo moduleEngine.NewFunction - entryPreambles of a host module are empty - which
		// is not this property's business)
		_ = h
		add("hostimports", m)
	}

	// 21. register pressure: many live values across a call
	{
		m := &wenc.Module{}
		id := m.AddFunc(vt(i64), vt(i64), nil, code().LocalGet(0).I64Const(1).Op(0x7c).End().B)
		var locals []wenc.ValType
		c := code()
		const n = 40
		for i := 0; i < n; i++ {
			if i%3 == 2 {
				locals = append(locals, f64)
				c.LocalGet(0).Op(0xb9).F64(float64(i) + 0.5).Op(0xa2).LocalSet(uint32(1 + i))
			} else {
				locals = append(locals, i64)
				c.LocalGet(0).I64Const(int64(i*i + 1)).Op(0x7e).LocalSet(uint32(1 + i))
			}
		}
		c.LocalGet(0).Call(id).LocalSet(0)
		c.LocalGet(0)
		for i := 0; i < n; i++ {
			if i%3 == 2 {
				c.LocalGet(uint32(1+i)).Prefixed(0xfc, 6).Op(0x7c)
			} else {
				c.LocalGet(uint32(1 + i)).Op(0x85)
			}
		}
		m.ExportFunc("pressure", m.AddFunc(vt(i64), vt(i64), locals, c.End().B))
		add("regpressure", m)
	}

	// 22. i64 bit operations
	{
		m := &wenc.Module{}
		m.ExportFunc("bits", m.AddFunc(vt(i64, i64), vt(i64), nil,
			code().LocalGet(0).Op(0x79).LocalGet(0).Op(0x7a).Op(0x7c).LocalGet(1).Op(0x7b).Op(0x7c).LocalGet(0).LocalGet(1).Op(0x89).Op(0x85).LocalGet(0).LocalGet(1).Op(0x8a).Op(0x84).End().B))
		m.ExportFunc("divrem", m.AddFunc(vt(i64, i64), vt(i64), nil,
			code().LocalGet(0).LocalGet(1).Op(0x7f).LocalGet(0).LocalGet(1).Op(0x82).Op(0x7c).End().B))
		m.ExportFunc("divzero", m.AddFunc(vt(i64), vt(i64), nil, code().LocalGet(0).I64Const(0).Op(0x80).End().B))
		add("i64bits", m)
	}

	// 23. deeply nested blocks
	{
		m := &wenc.Module{}
		c := code()
		const depth = 60
		for i := 0; i < depth; i++ {
			c.Block(0x40)
		}
		c.LocalGet(0).BrIf(depth / 2)
		for i := 0; i < depth; i++ {
			c.LocalGet(1).I32Const(int32(i)).Op(0x6a).LocalSet(1).End()
		}
		c.LocalGet(1)
		m.ExportFunc("nest", m.AddFunc(vt(i32), vt(i32), vt(i32), c.End().B))
		add("nested", m)
	}

	// 24. big data segment, tiny code
	{
		m := &wenc.Module{}
		m.Mems = []wenc.Limits{{Min: 2}}
		big := make([]byte, 70000)
		for i := range big {
			big[i] = byte(i*31 + i>>8)
		}
		m.Datas = []wenc.Data{{Offset: wenc.ConstI32(100), Bytes: big}}
		m.ExportFunc("at", m.AddFunc(vt(i32), vt(i32), nil, code().LocalGet(0).I32Const(1000).Op(0x6c).Mem(0x2d, 0, 100).End().B))
		exportMem(m, "memory")
		add("bigdata", m)
	}

	// 25. only a start function and nothing exported
	{
		m := &wenc.Module{}
		m.Globals = []wenc.Global{{Type: wenc.GlobalType{Type: i32, Mutable: true}, Init: wenc.ConstI32(0)}}
		st := m.AddFunc(nil, nil, nil, code().I32Const(77).GlobalSet(0).End().B)
		m.Start = &st
		add("startonly", m)
	}

	// 26. start function that traps
	{
		m := &wenc.Module{}
		st := m.AddFunc(nil, nil, nil, code().Unreachable().End().B)
		m.Start = &st
		m.ExportFunc("f", m.AddFunc(nil, vt(i32), nil, code().I32Const(1).End().B))
		add("starttrap", m)
	}

	// 27. imported memory/global/table are not provided by the runner -> module
	// with a memory import is not usable; instead: exported table + active elems
	{
		m := &wenc.Module{}
		a := m.AddFunc(vt(f64), vt(f64), nil, code().LocalGet(0).LocalGet(0).Op(0xa2).End().B)
		b := m.AddFunc(vt(f64), vt(f64), nil, code().LocalGet(0).Op(0x9f).End().B)
		m.Tables = []wenc.TableType{{Elem: wenc.FuncRef, Lim: wenc.Limits{Min: 3}}}
		m.Elems = []wenc.Elem{{Offset: wenc.ConstI32(1), FuncIdx: []uint32{a, b}}}
		m.Exports = append(m.Exports, wenc.Export{Name: "tab", Kind: wenc.ExtTable, Idx: 0})
		ti := m.AddType(vt(f64), vt(f64))
		m.ExportFunc("apply", m.AddFunc(vt(i32, f64), vt(f64), nil, code().LocalGet(1).LocalGet(0).CallIndirect(ti, 0).End().B))
		add("table-f64", m)
	}
	return out
}

// genModule builds a PRNG-generated module of straight-line / structured
// arithmetic functions (varies with VERIF_SEED).
func genModule(r *core.Rng, nfuncs int) []byte {
	m := &wenc.Module{}
	m.Mems = []wenc.Limits{{Min: 1}}
	m.Globals = []wenc.Global{{Type: wenc.GlobalType{Type: i64, Mutable: true}, Init: wenc.ConstI64(int64(r.U64()))}}
	params := vt(i32, i64, f64)
	var expr func(c *wenc.Code, t wenc.ValType, depth int, self uint32)
	expr = func(c *wenc.Code, t wenc.ValType, depth int, self uint32) {
		if depth <= 0 || r.Chance(1, 6) {
			switch t {
			case i32:
				if r.Bool() {
					c.LocalGet(0)
				} else {
					c.I32Const(int32(r.I32()))
				}
			case i64:
				switch r.Intn(3) {
				case 0:
					c.LocalGet(1)
				case 1:
					c.GlobalGet(0)
				default:
					c.I64Const(int64(r.I64()))
				}
			default:
				if r.Bool() {
					c.LocalGet(2)
				} else {
					c.F64Const(r.F64())
				}
			}
			return
		}
		switch t {
		case i32:
			switch r.Intn(9) {
			case 0: // i64 compare
				expr(c, i64, depth-1, self)
				expr(c, i64, depth-1, self)
				c.Op(byte(0x51 + r.Intn(10)))
			case 1:
				expr(c, i64, depth-1, self)
				c.Op(0xa7)
			case 2: // memory round trip
				c.I32Const(int32(r.Intn(1000) * 8))
				expr(c, i32, depth-1, self)
				c.Mem(0x36, 2, 0)
				c.I32Const(int32(r.Intn(1000)*8)).Mem(0x28, 2, 0)
			case 3: // if/else
				expr(c, i32, depth-1, self)
				c.If(i32)
				expr(c, i32, depth-1, self)
				c.Else()
				expr(c, i32, depth-1, self)
				c.End()
			case 4:
				expr(c, i32, depth-1, self)
				c.Op(byte(0x67 + r.Intn(3)))
			case 5:
				expr(c, f64, depth-1, self)
				expr(c, f64, depth-1, self)
				c.Op(byte(0x61 + r.Intn(6)))
			default:
				expr(c, i32, depth-1, self)
				expr(c, i32, depth-1, self)
				ops := []byte{0x6a, 0x6b, 0x6c, 0x71, 0x72, 0x73, 0x74, 0x75, 0x76, 0x77, 0x78, 0x6e, 0x70, 0x46, 0x49, 0x4a}
				c.Op(ops[r.Intn(len(ops))])
			}
		case i64:
			switch r.Intn(7) {
			case 0:
				expr(c, i32, depth-1, self)
				c.Op(byte(0xac + r.Intn(2)))
			case 1:
				expr(c, f64, depth-1, self)
				c.Prefixed(0xfc, uint32(6+r.Intn(2)))
			case 2:
				expr(c, i64, depth-1, self)
				expr(c, i64, depth-1, self)
				expr(c, i32, depth-1, self)
				c.Select()
			case 3:
				expr(c, i64, depth-1, self)
				c.GlobalSet(0)
				c.GlobalGet(0)
			case 4:
				if self > 0 { // call an earlier function
					expr(c, i32, depth-1, self)
					expr(c, i64, depth-1, self)
					expr(c, f64, depth-1, self)
					c.Call(uint32(r.Intn(int(self))))
				} else {
					expr(c, i64, depth-1, self)
				}
			default:
				expr(c, i64, depth-1, self)
				expr(c, i64, depth-1, self)
				ops := []byte{0x7c, 0x7d, 0x7e, 0x83, 0x84, 0x85, 0x86, 0x87, 0x88, 0x89, 0x8a, 0x80, 0x82, 0x7f}
				c.Op(ops[r.Intn(len(ops))])
			}
		default:
			switch r.Intn(5) {
			case 0:
				expr(c, i32, depth-1, self)
				c.Op(0xb7)
			case 1:
				expr(c, i64, depth-1, self)
				c.Op(0xb9)
			case 2:
				expr(c, f64, depth-1, self)
				c.Op(byte(0x99 + r.Intn(7)))
			default:
				expr(c, f64, depth-1, self)
				expr(c, f64, depth-1, self)
				c.Op(byte(0xa0 + r.Intn(7)))
			}
		}
	}
	for i := 0; i < nfuncs; i++ {
		c := code()
		expr(c, i64, 3+r.Intn(4), uint32(i))
		idx := m.AddFunc(params, vt(i64), nil, c.End().B)
		if i%2 == 0 || i == nfuncs-1 {
			m.ExportFunc(fmt.Sprintf("g%02d", i), idx)
		}
	}
	return m.Encode()
}

// familyModules: n modules of identical shape and entry size whose exports
// return a module-specific constant (1000+i): if a cache entry of one is ever
// served for another, the behaviour differs.
func familyModules(n int) []modSpec {
	var out []modSpec
	for i := 0; i < n; i++ {
		k := int32(1000 + i)
		m := &wenc.Module{}
		m.Mems = []wenc.Limits{{Min: 1}}
		m.ExportFunc("id", m.AddFunc(nil, vt(i32), nil, code().I32Const(k).End().B))
		m.ExportFunc("mix", m.AddFunc(vt(i32), vt(i32), nil, code().LocalGet(0).I32Const(k).Op(0x73).End().B))
		prev := uint32(1) // "mix": (i32) -> i32
		for f := 0; f < 24; f++ {
			c := code().LocalGet(0).I32Const(k*7 + int32(f)).Op(0x6a).I32Const(k).Op(0x6c).Call(prev).LocalGet(0).Op(0x73)
			prev = m.AddFunc(vt(i32), vt(i32), nil, c.End().B)
		}
		m.ExportFunc("chain", prev)
		m.ExportFunc("store", m.AddFunc(nil, vt(i32), nil, code().I32Const(64).I32Const(k).Mem(0x36, 2, 0).I32Const(64).Mem(0x28, 2, 0).End().B))
		exportMem(m, "memory")
		out = append(out, modSpec{Name: fmt.Sprintf("family%02d", i), Wasm: m.Encode(), Kind: "family"})
	}
	return out
}

var spectestNames = []string{
	"fac.0", "br_table.0", "left-to-right.0", "conversions.0", "i64.0", "f32_bitwise.0", "memory_grow.0",
	"switch.0", "stack.0", "float_exprs.0", "unwind.0", "local_tee.0", "select.0",
}

var dwarfNames = []string{"tinygo", "zig", "zig-cc"}

func repoDir() string {
	if d := os.Getenv("VERIF_REPO"); d != "" {
		return d
	}
	return "/repo"
}

// moduleSet returns the candidate modules for this run (fixed part + seeded
// generated part + real binaries from the repository's test data).
func moduleSet(seed int64, nGen int) (out []modSpec, missing []string) {
	out = builtModules()
	r := core.NewRng(seed, 1301)
	for i := 0; i < nGen; i++ {
		out = append(out, modSpec{Name: fmt.Sprintf("gen%02d", i), Wasm: genModule(r.Split(), 2+r.Intn(14)), Kind: "gen"})
	}
	out = append(out, familyModules(16)...)
	for _, n := range spectestNames {
		b, err := os.ReadFile(filepath.Join(repoDir(), "internal/integration_test/spectest/v1/testdata", n+".wasm"))
		if err != nil {
			missing = append(missing, "spectest/"+n)
			continue
		}
		out = append(out, modSpec{Name: "spectest-" + n, Wasm: b, Kind: "spectest"})
	}
	for _, n := range dwarfNames {
		b, err := os.ReadFile(filepath.Join(repoDir(), "internal/testing/dwarftestdata/testdata", n, "main.wasm"))
		if err != nil {
			missing = append(missing, "dwarf/"+n)
			continue
		}
		out = append(out, modSpec{Name: "dwarf-" + n, Wasm: b, Kind: "dwarf"})
	}
	return
}
