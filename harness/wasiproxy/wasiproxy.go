// Package wasiproxy builds a guest that imports every wasi_snapshot_preview1
// function and re-exports a pass-through wrapper under the same name, plus its
// memory, so the harness can issue WASI calls *as a guest* with arbitrary
// integers and read the output buffers from guest memory.
package wasiproxy

import (
	"context"
	"sort"

	"github.com/tetratelabs/wazero"
	"github.com/tetratelabs/wazero/api"
	"github.com/tetratelabs/wazero/imports/wasi_snapshot_preview1"
	"github.com/tetratelabs/wazero/verifharness/wenc"
)

// Sig describes one WASI function.
type Sig struct {
	Name    string
	Params  []api.ValueType
	Results []api.ValueType
	PNames  []string
}

// Signatures lists the WASI functions the host module of this wazero exports.
func Signatures() []Sig {
	ctx := context.Background()
	r := wazero.NewRuntimeWithConfig(ctx, wazero.NewRuntimeConfigInterpreter())
	defer r.Close(ctx)
	cm, err := wasi_snapshot_preview1.NewBuilder(r).Compile(ctx)
	if err != nil {
		panic(err)
	}
	var out []Sig
	for name, d := range cm.ExportedFunctions() {
		out = append(out, Sig{Name: name, Params: d.ParamTypes(), Results: d.ResultTypes(), PNames: d.ParamNames()})
	}
	sort.Slice(out, func(i, j int) bool { return out[i].Name < out[j].Name })
	return out
}

// Build returns the proxy guest binary with a memory of minPages (max maxPages, 0 = no max).
// extraStart, if non-empty, names an exported no-op function (e.g. "_start").
func Build(sigs []Sig, minPages, maxPages uint32, exportNops ...string) []byte {
	return BuildModule(sigs, minPages, maxPages, exportNops...).Encode()
}

// BuildModule is Build returning the module for further additions (functions
// may be appended; imports may not).
func BuildModule(sigs []Sig, minPages, maxPages uint32, exportNops ...string) *wenc.Module {
	m := &wenc.Module{}
	for _, s := range sigs {
		m.ImportFunc(wasi_snapshot_preview1.ModuleName, s.Name, s.Params, s.Results)
	}
	for i, s := range sigs {
		c := &wenc.Code{}
		for p := range s.Params {
			c.LocalGet(uint32(p))
		}
		c.Call(uint32(i)).End()
		idx := m.AddFunc(s.Params, s.Results, nil, c.B)
		m.ExportFunc(s.Name, idx)
	}
	for _, n := range exportNops {
		idx := m.AddFunc(nil, nil, nil, (&wenc.Code{}).End().B)
		m.ExportFunc(n, idx)
	}
	m.Mems = []wenc.Limits{{Min: minPages, Max: maxPages, HasMax: maxPages != 0}}
	m.Exports = append(m.Exports, wenc.Export{Name: "memory", Kind: wenc.ExtMemory, Idx: 0})
	return m
}
