// Package wreduce shrinks a failing (program, script) pair while a predicate
// keeps holding: drops script steps, stubs whole functions, and deletes
// instruction spans from function bodies (candidates that no longer validate
// are skipped).
package wreduce

import (
	"context"

	"github.com/tetratelabs/wazero"
	"github.com/tetratelabs/wazero/verifharness/wdis"
	"github.com/tetratelabs/wazero/verifharness/wgen"
	"github.com/tetratelabs/wazero/verifharness/wrun"
)

var replacements = [][]byte{
	nil,
	{0x41, 0x00}, // i32.const 0
	{0x42, 0x00}, // i64.const 0
	{0x43, 0, 0, 0, 0},
	{0x44, 0, 0, 0, 0, 0, 0, 0, 0},
	{0xfd, 0x0c, 0, 0, 0, 0, 0, 0, 0, 0, 0, 0, 0, 0, 0, 0, 0, 0},
}

func isConst(op byte) bool { return op >= 0x41 && op <= 0x44 }

// valid reports whether the module still validates (interpreter compile only).
func valid(p *wgen.Program) bool {
	ctx := context.Background()
	rt := wazero.NewRuntimeWithConfig(ctx, wazero.NewRuntimeConfigInterpreter().WithCoreFeatures(wrun.Features(p.Cfg)))
	defer rt.Close(ctx)
	_, err := rt.CompileModule(ctx, p.Bin)
	return err == nil
}

// Reduce returns a smaller (program, script) for which still(p, script) holds.
// p.Mod is edited in place. budget bounds the number of predicate evaluations.
func Reduce(p *wgen.Program, script []wrun.Step, still func(*wgen.Program, []wrun.Step) bool, budget int) []wrun.Step {
	try := func() bool {
		if budget <= 0 {
			return false
		}
		p.Bin = p.Mod.Encode()
		if !valid(p) {
			return false
		}
		budget--
		return still(p, script)
	}
	// 1. script steps
	for i := len(script) - 1; i >= 0; i-- {
		old := script
		script = append(append([]wrun.Step(nil), script[:i]...), script[i+1:]...)
		if !try() {
			script = old
		}
	}
	// 2. stub whole functions
	for fi := range p.Mod.Funcs {
		old := p.Mod.Funcs[fi].Body
		p.Mod.Funcs[fi].Body = []byte{0x00, 0x0b} // unreachable end
		if !try() {
			p.Mod.Funcs[fi].Body = old
		}
	}
	// 3. delete instruction spans
	for pass := 0; pass < 3; pass++ {
		changed := false
		for fi := range p.Mod.Funcs {
			body := p.Mod.Funcs[fi].Body
			if len(body) <= 2 {
				continue
			}
			for size := 64; size >= 1; size /= 2 {
				ins := wdis.Instrs(body)
				for i := 0; i+size < len(ins); i++ { // never delete the final end
					ins = wdis.Instrs(body)
					if i+size >= len(ins) {
						break
					}
					ok := false
					for _, repl := range replacements {
						if size == 1 && len(repl) > 0 && string(body[ins[i].Pos:ins[i].End]) == string(repl) {
							continue
						}
						if size == 1 && len(repl) >= ins[i].End-ins[i].Pos && len(repl) > 0 {
							// only shrink or simplify: allow same-size const replacement of non-const instrs
							if isConst(body[ins[i].Pos]) {
								continue
							}
						}
						nb := append(append(append([]byte(nil), body[:ins[i].Pos]...), repl...), body[ins[i+size-1].End:]...)
						p.Mod.Funcs[fi].Body = nb
						if try() {
							body = nb
							changed = true
							ok = true
							break
						}
						p.Mod.Funcs[fi].Body = body
					}
					if ok {
						i--
					}
					if budget <= 0 {
						break
					}
				}
			}
		}
		if !changed {
			break
		}
	}
	p.Bin = p.Mod.Encode()
	return script
}
