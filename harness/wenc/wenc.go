// Package wenc is an independent WebAssembly binary encoder (all sections,
// all element/data segment modes), written from the specification and not
// sharing code with wazero's internal/testing/binaryencoding.
package wenc

import (
	"encoding/binary"
	"math"
)

type ValType = byte

const (
	I32       ValType = 0x7f
	I64       ValType = 0x7e
	F32       ValType = 0x7d
	F64       ValType = 0x7c
	V128      ValType = 0x7b
	FuncRef   ValType = 0x70
	ExternRef ValType = 0x6f
)

func TypeName(t ValType) string {
	switch t {
	case I32:
		return "i32"
	case I64:
		return "i64"
	case F32:
		return "f32"
	case F64:
		return "f64"
	case V128:
		return "v128"
	case FuncRef:
		return "funcref"
	case ExternRef:
		return "externref"
	}
	return "?"
}

const (
	ExtFunc   = 0
	ExtTable  = 1
	ExtMemory = 2
	ExtGlobal = 3
)

type FuncType struct{ Params, Results []ValType }

type Limits struct {
	Min    uint32
	Max    uint32
	HasMax bool
	Shared bool
}

type TableType struct {
	Elem ValType
	Lim  Limits
}

type GlobalType struct {
	Type    ValType
	Mutable bool
}

type Import struct {
	Module, Name string
	Kind         byte
	TypeIdx      uint32 // func
	Table        TableType
	Mem          Limits
	Global       GlobalType
}

type Func struct {
	TypeIdx uint32
	Locals  []ValType // expanded; run-length compressed on encode
	Body    []byte    // without trailing end? -> must include final 0x0b
}

type Global struct {
	Type GlobalType
	Init []byte // const expr incl. 0x0b
}

type Export struct {
	Name string
	Kind byte
	Idx  uint32
}

// Elem segment. Mode: 0 active, 1 passive, 2 declarative.
type Elem struct {
	Mode     int
	TableIdx uint32
	Offset   []byte // const expr incl end (active)
	Type     ValType
	// Either FuncIdx (ref.func/indices) or Exprs (each incl. end) when UseExprs.
	FuncIdx  []uint32
	Exprs    [][]byte
	UseExprs bool
}

// Data segment. Mode: 0 active, 1 passive.
type Data struct {
	Mode   int
	MemIdx uint32
	Offset []byte
	Bytes  []byte
}

type Custom struct {
	Name string
	Data []byte
}

type Module struct {
	Types     []FuncType
	Imports   []Import
	Funcs     []Func
	Tables    []TableType
	Mems      []Limits
	Globals   []Global
	Exports   []Export
	Start     *uint32
	Elems     []Elem
	Datas     []Data
	DataCount bool
	Customs   []Custom // emitted at the end
}

// AddType interns a function type.
func (m *Module) AddType(params, results []ValType) uint32 {
	for i, t := range m.Types {
		if string(t.Params) == string(params) && string(t.Results) == string(results) {
			return uint32(i)
		}
	}
	m.Types = append(m.Types, FuncType{append([]ValType(nil), params...), append([]ValType(nil), results...)})
	return uint32(len(m.Types) - 1)
}

func (m *Module) NumImportedFuncs() uint32 {
	n := uint32(0)
	for _, i := range m.Imports {
		if i.Kind == ExtFunc {
			n++
		}
	}
	return n
}

func (m *Module) NumImportedGlobals() uint32 {
	n := uint32(0)
	for _, i := range m.Imports {
		if i.Kind == ExtGlobal {
			n++
		}
	}
	return n
}

// ImportFunc adds a function import (must be called before AddFunc for index stability) and returns its function index.
func (m *Module) ImportFunc(mod, name string, params, results []ValType) uint32 {
	idx := m.NumImportedFuncs()
	m.Imports = append(m.Imports, Import{Module: mod, Name: name, Kind: ExtFunc, TypeIdx: m.AddType(params, results)})
	return idx
}

// AddFunc adds a defined function and returns its function index.
func (m *Module) AddFunc(params, results, locals []ValType, body []byte) uint32 {
	m.Funcs = append(m.Funcs, Func{TypeIdx: m.AddType(params, results), Locals: locals, Body: body})
	return m.NumImportedFuncs() + uint32(len(m.Funcs)-1)
}

func (m *Module) ExportFunc(name string, idx uint32) {
	m.Exports = append(m.Exports, Export{name, ExtFunc, idx})
}

func U32(b []byte, v uint32) []byte {
	for {
		c := byte(v & 0x7f)
		v >>= 7
		if v != 0 {
			b = append(b, c|0x80)
		} else {
			return append(b, c)
		}
	}
}

func U64(b []byte, v uint64) []byte {
	for {
		c := byte(v & 0x7f)
		v >>= 7
		if v != 0 {
			b = append(b, c|0x80)
		} else {
			return append(b, c)
		}
	}
}

func S64(b []byte, v int64) []byte {
	for {
		c := byte(v & 0x7f)
		s := c&0x40 != 0
		v >>= 7
		if (v == 0 && !s) || (v == -1 && s) {
			return append(b, c)
		}
		b = append(b, c|0x80)
	}
}

func S32(b []byte, v int32) []byte { return S64(b, int64(v)) }

func name(b []byte, s string) []byte {
	b = U32(b, uint32(len(s)))
	return append(b, s...)
}

func limits(b []byte, l Limits) []byte {
	f := byte(0)
	if l.HasMax {
		f |= 1
	}
	if l.Shared {
		f |= 2
	}
	b = append(b, f)
	b = U32(b, l.Min)
	if l.HasMax {
		b = U32(b, l.Max)
	}
	return b
}

func section(out []byte, id byte, body []byte) []byte {
	out = append(out, id)
	out = U32(out, uint32(len(body)))
	return append(out, body...)
}

func vecValTypes(b []byte, ts []ValType) []byte {
	b = U32(b, uint32(len(ts)))
	return append(b, ts...)
}

// Encode serialises the module.
func (m *Module) Encode() []byte {
	out := []byte{0, 'a', 's', 'm', 1, 0, 0, 0}
	if len(m.Types) > 0 {
		var b []byte
		b = U32(b, uint32(len(m.Types)))
		for _, t := range m.Types {
			b = append(b, 0x60)
			b = vecValTypes(b, t.Params)
			b = vecValTypes(b, t.Results)
		}
		out = section(out, 1, b)
	}
	if len(m.Imports) > 0 {
		var b []byte
		b = U32(b, uint32(len(m.Imports)))
		for _, im := range m.Imports {
			b = name(b, im.Module)
			b = name(b, im.Name)
			b = append(b, im.Kind)
			switch im.Kind {
			case ExtFunc:
				b = U32(b, im.TypeIdx)
			case ExtTable:
				b = append(b, im.Table.Elem)
				b = limits(b, im.Table.Lim)
			case ExtMemory:
				b = limits(b, im.Mem)
			case ExtGlobal:
				b = append(b, im.Global.Type)
				if im.Global.Mutable {
					b = append(b, 1)
				} else {
					b = append(b, 0)
				}
			}
		}
		out = section(out, 2, b)
	}
	if len(m.Funcs) > 0 {
		var b []byte
		b = U32(b, uint32(len(m.Funcs)))
		for _, f := range m.Funcs {
			b = U32(b, f.TypeIdx)
		}
		out = section(out, 3, b)
	}
	if len(m.Tables) > 0 {
		var b []byte
		b = U32(b, uint32(len(m.Tables)))
		for _, t := range m.Tables {
			b = append(b, t.Elem)
			b = limits(b, t.Lim)
		}
		out = section(out, 4, b)
	}
	if len(m.Mems) > 0 {
		var b []byte
		b = U32(b, uint32(len(m.Mems)))
		for _, l := range m.Mems {
			b = limits(b, l)
		}
		out = section(out, 5, b)
	}
	if len(m.Globals) > 0 {
		var b []byte
		b = U32(b, uint32(len(m.Globals)))
		for _, g := range m.Globals {
			b = append(b, g.Type.Type)
			if g.Type.Mutable {
				b = append(b, 1)
			} else {
				b = append(b, 0)
			}
			b = append(b, g.Init...)
		}
		out = section(out, 6, b)
	}
	if len(m.Exports) > 0 {
		var b []byte
		b = U32(b, uint32(len(m.Exports)))
		for _, e := range m.Exports {
			b = name(b, e.Name)
			b = append(b, e.Kind)
			b = U32(b, e.Idx)
		}
		out = section(out, 7, b)
	}
	if m.Start != nil {
		out = section(out, 8, U32(nil, *m.Start))
	}
	if len(m.Elems) > 0 {
		var b []byte
		b = U32(b, uint32(len(m.Elems)))
		for _, e := range m.Elems {
			b = encodeElem(b, e)
		}
		out = section(out, 9, b)
	}
	if m.DataCount {
		out = section(out, 12, U32(nil, uint32(len(m.Datas))))
	}
	if len(m.Funcs) > 0 {
		var b []byte
		b = U32(b, uint32(len(m.Funcs)))
		for _, f := range m.Funcs {
			var fb []byte
			// run-length locals
			type run struct {
				n uint32
				t ValType
			}
			var runs []run
			for _, t := range f.Locals {
				if len(runs) > 0 && runs[len(runs)-1].t == t {
					runs[len(runs)-1].n++
				} else {
					runs = append(runs, run{1, t})
				}
			}
			fb = U32(fb, uint32(len(runs)))
			for _, r := range runs {
				fb = U32(fb, r.n)
				fb = append(fb, r.t)
			}
			fb = append(fb, f.Body...)
			b = U32(b, uint32(len(fb)))
			b = append(b, fb...)
		}
		out = section(out, 10, b)
	}
	if len(m.Datas) > 0 {
		var b []byte
		b = U32(b, uint32(len(m.Datas)))
		for _, d := range m.Datas {
			switch {
			case d.Mode == 1:
				b = append(b, 1)
			case d.MemIdx != 0:
				b = append(b, 2)
				b = U32(b, d.MemIdx)
				b = append(b, d.Offset...)
			default:
				b = append(b, 0)
				b = append(b, d.Offset...)
			}
			b = U32(b, uint32(len(d.Bytes)))
			b = append(b, d.Bytes...)
		}
		out = section(out, 11, b)
	}
	for _, c := range m.Customs {
		var b []byte
		b = name(b, c.Name)
		b = append(b, c.Data...)
		out = section(out, 0, b)
	}
	return out
}

func encodeElem(b []byte, e Elem) []byte {
	// flags: bit0 = passive or declarative; bit1 = explicit table index (active) / declarative; bit2 = exprs
	var flag byte
	switch e.Mode {
	case 0:
		if e.TableIdx != 0 || (e.Type != FuncRef && e.Type != 0) {
			flag = 2
		}
	case 1:
		flag = 1
	case 2:
		flag = 3
	}
	if e.UseExprs {
		flag |= 4
	}
	b = append(b, flag)
	if flag&3 == 2 {
		b = U32(b, e.TableIdx)
	}
	if e.Mode == 0 {
		b = append(b, e.Offset...)
	}
	if flag&3 != 0 {
		if e.UseExprs {
			t := e.Type
			if t == 0 {
				t = FuncRef
			}
			b = append(b, t)
		} else {
			b = append(b, 0x00) // elemkind funcref
		}
	}
	if e.UseExprs {
		b = U32(b, uint32(len(e.Exprs)))
		for _, x := range e.Exprs {
			b = append(b, x...)
		}
	} else {
		b = U32(b, uint32(len(e.FuncIdx)))
		for _, f := range e.FuncIdx {
			b = U32(b, f)
		}
	}
	return b
}

// ---- code builder ----

// Code accumulates an instruction sequence.
type Code struct{ B []byte }

func (c *Code) Op(ops ...byte) *Code { c.B = append(c.B, ops...); return c }
func (c *Code) U32(v uint32) *Code   { c.B = U32(c.B, v); return c }
func (c *Code) End() *Code           { return c.Op(0x0b) }
func (c *Code) Bytes() []byte        { return c.B }
func (c *Code) Raw(b []byte) *Code   { c.B = append(c.B, b...); return c }

func (c *Code) I32Const(v int32) *Code   { c.B = S32(append(c.B, 0x41), v); return c }
func (c *Code) I64Const(v int64) *Code   { c.B = S64(append(c.B, 0x42), v); return c }
func (c *Code) F32Const(bits uint32) *Code {
	c.B = binary.LittleEndian.AppendUint32(append(c.B, 0x43), bits)
	return c
}
func (c *Code) F64Const(bits uint64) *Code {
	c.B = binary.LittleEndian.AppendUint64(append(c.B, 0x44), bits)
	return c
}
func (c *Code) F32(v float32) *Code { return c.F32Const(math.Float32bits(v)) }
func (c *Code) F64(v float64) *Code { return c.F64Const(math.Float64bits(v)) }
func (c *Code) V128Const(lo, hi uint64) *Code {
	c.B = append(c.B, 0xfd, 0x0c)
	c.B = binary.LittleEndian.AppendUint64(c.B, lo)
	c.B = binary.LittleEndian.AppendUint64(c.B, hi)
	return c
}
func (c *Code) LocalGet(i uint32) *Code  { return c.Op(0x20).U32(i) }
func (c *Code) LocalSet(i uint32) *Code  { return c.Op(0x21).U32(i) }
func (c *Code) LocalTee(i uint32) *Code  { return c.Op(0x22).U32(i) }
func (c *Code) GlobalGet(i uint32) *Code { return c.Op(0x23).U32(i) }
func (c *Code) GlobalSet(i uint32) *Code { return c.Op(0x24).U32(i) }
func (c *Code) Call(i uint32) *Code      { return c.Op(0x10).U32(i) }
func (c *Code) CallIndirect(typeIdx, table uint32) *Code {
	return c.Op(0x11).U32(typeIdx).U32(table)
}
func (c *Code) ReturnCall(i uint32) *Code { return c.Op(0x12).U32(i) }
func (c *Code) ReturnCallIndirect(typeIdx, table uint32) *Code {
	return c.Op(0x13).U32(typeIdx).U32(table)
}

// Block types: 0x40 empty, a value type, or a type index (BlockT).
func (c *Code) Block(bt byte) *Code { return c.Op(0x02, bt) }
func (c *Code) Loop(bt byte) *Code  { return c.Op(0x03, bt) }
func (c *Code) If(bt byte) *Code    { return c.Op(0x04, bt) }
func (c *Code) BlockT(op byte, typeIdx uint32) *Code {
	c.B = S64(append(c.B, op), int64(typeIdx))
	return c
}
func (c *Code) Else() *Code            { return c.Op(0x05) }
func (c *Code) Br(l uint32) *Code      { return c.Op(0x0c).U32(l) }
func (c *Code) BrIf(l uint32) *Code    { return c.Op(0x0d).U32(l) }
func (c *Code) Return() *Code          { return c.Op(0x0f) }
func (c *Code) Unreachable() *Code     { return c.Op(0x00) }
func (c *Code) Drop() *Code            { return c.Op(0x1a) }
func (c *Code) Select() *Code          { return c.Op(0x1b) }
func (c *Code) BrTable(ls []uint32, def uint32) *Code {
	c.Op(0x0e).U32(uint32(len(ls)))
	for _, l := range ls {
		c.U32(l)
	}
	return c.U32(def)
}

// Mem emits a plain memory instruction with alignment exponent and offset.
func (c *Code) Mem(op byte, align, offset uint32) *Code { return c.Op(op).U32(align).U32(offset) }

// Prefixed emits 0xfc/0xfd/0xfe-prefixed opcodes (sub-opcode as LEB).
func (c *Code) Prefixed(prefix byte, sub uint32) *Code { return c.Op(prefix).U32(sub) }
func (c *Code) MemorySize() *Code                     { return c.Op(0x3f, 0) }
func (c *Code) MemoryGrow() *Code                     { return c.Op(0x40, 0) }
func (c *Code) RefNull(t ValType) *Code               { return c.Op(0xd0, t) }
func (c *Code) RefIsNull() *Code                      { return c.Op(0xd1) }
func (c *Code) RefFunc(i uint32) *Code                { return c.Op(0xd2).U32(i) }
func (c *Code) TableGet(t uint32) *Code               { return c.Op(0x25).U32(t) }
func (c *Code) TableSet(t uint32) *Code               { return c.Op(0x26).U32(t) }

// ConstExpr helpers (with end).
func ConstI32(v int32) []byte      { return (&Code{}).I32Const(v).End().B }
func ConstI64(v int64) []byte      { return (&Code{}).I64Const(v).End().B }
func ConstF32(bits uint32) []byte  { return (&Code{}).F32Const(bits).End().B }
func ConstF64(bits uint64) []byte  { return (&Code{}).F64Const(bits).End().B }
func ConstGlobal(i uint32) []byte  { return (&Code{}).GlobalGet(i).End().B }
func ConstRefNull(t byte) []byte   { return (&Code{}).RefNull(t).End().B }
func ConstRefFunc(i uint32) []byte { return (&Code{}).RefFunc(i).End().B }
func ConstV128(lo, hi uint64) []byte {
	return (&Code{}).V128Const(lo, hi).End().B
}

// ZeroConst returns a const expr producing the zero of t.
func ZeroConst(t ValType) []byte {
	switch t {
	case I32:
		return ConstI32(0)
	case I64:
		return ConstI64(0)
	case F32:
		return ConstF32(0)
	case F64:
		return ConstF64(0)
	case V128:
		return ConstV128(0, 0)
	default:
		return ConstRefNull(t)
	}
}
