// Package wrun runs a wgen program under a given engine/configuration and
// records a canonical execution trace at the public API boundary: per call the
// result bits or error class, the host-call log, and after every step a state
// digest (memory size + hash, globals, table slots).
package wrun

import (
	"context"
	"crypto/sha256"
	"encoding/hex"
	"errors"
	"fmt"
	"regexp"
	"strings"
	"sync"

	"github.com/tetratelabs/wazero"
	"github.com/tetratelabs/wazero/api"
	"github.com/tetratelabs/wazero/experimental"
	"github.com/tetratelabs/wazero/internal/wasm"
	"github.com/tetratelabs/wazero/sys"
	"github.com/tetratelabs/wazero/verifharness/core"
	"github.com/tetratelabs/wazero/verifharness/wenc"
	"github.com/tetratelabs/wazero/verifharness/wgen"
)

// Step is one step of a call script.
type Step struct {
	Kind string   `json:"k"` // call | memwrite | memgrow | globalset
	Fn   string   `json:"f,omitempty"`
	Args []uint64 `json:"a,omitempty"`
	Off  uint32   `json:"o,omitempty"`
	Val  uint64   `json:"v,omitempty"`
}

func (s Step) String() string {
	switch s.Kind {
	case "call":
		return fmt.Sprintf("call %s(%s)", s.Fn, hexList(s.Args))
	case "memwrite":
		return fmt.Sprintf("host mem.WriteUint64Le(%#x,%#x)", s.Off, s.Val)
	case "memgrow":
		return fmt.Sprintf("host mem.Grow(%d)", s.Val)
	case "globalset":
		return fmt.Sprintf("host global %s.Set(%#x)", s.Fn, s.Val)
	}
	return s.Kind
}

func hexList(v []uint64) string {
	s := make([]string, len(v))
	for i, x := range v {
		s[i] = fmt.Sprintf("%#x", x)
	}
	return strings.Join(s, ",")
}

// GenScript makes a PRNG call script for p.
func GenScript(r *core.Rng, p *wgen.Program, n int) []Step {
	var out []Step
	for i := 0; i < n; i++ {
		switch k := r.Intn(12); {
		case k == 0 && p.Cfg.MemMin > 0:
			out = append(out, Step{Kind: "memwrite", Off: uint32(r.Intn(int(p.Cfg.MemMin)*65536 - 8)), Val: r.I64()})
		case k == 1:
			out = append(out, Step{Kind: "memgrow", Val: uint64(r.Intn(2))})
		case k == 2 && len(p.Globals) > 0:
			g := p.Globals[r.Intn(len(p.Globals))]
			if g.Mutable && g.Type != wenc.V128 {
				out = append(out, Step{Kind: "globalset", Fn: g.Name, Val: ArgFor(r, g.Type)[0]})
				continue
			}
			fallthrough
		default:
			fi := r.Intn(len(p.Funcs))
			var args []uint64
			for _, t := range p.Funcs[fi].Params {
				args = append(args, ArgFor(r, t)...)
			}
			out = append(out, Step{Kind: "call", Fn: fmt.Sprintf("f%d", fi), Args: args})
		}
	}
	return out
}

// ArgFor returns the uint64 encoding (two for v128) of a PRNG value of type t.
func ArgFor(r *core.Rng, t wenc.ValType) []uint64 {
	switch t {
	case wenc.I32:
		return []uint64{uint64(r.I32())}
	case wenc.I64:
		return []uint64{r.I64()}
	case wenc.F32:
		return []uint64{uint64(r.F32())}
	case wenc.F64:
		return []uint64{r.F64()}
	case wenc.V128:
		return []uint64{r.I64(), r.I64()}
	}
	return []uint64{0}
}

// Options select the engine and the (supposedly non-semantic) configuration.
type Options struct {
	Compiler bool
	// Config hooks
	RuntimeConfig func(wazero.RuntimeConfig) wazero.RuntimeConfig
	Ctx           context.Context // carries allocator / listener factory etc.; nil = Background
	Fuel          int32
	// KeepOpen leaves runtime for the caller to close (returned in Result).
	NoDigest bool
	// HostClose lets the generated programs' "hclose" import really close the calling module
	// (CloseWithExitCode(7)) when its argument is a multiple of 3; otherwise hclose is a no-op returning 0.
	HostClose bool
	// OnReenter is called by the harness's re-entering host function around its
	// nested api.Function.Call (true before, false after): an activation marker.
	OnReenter func(enter bool)
	// OnStep is called after every script step (debugging / extra monitors).
	OnStep func(i int, mod api.Module)
}

// Trace is the canonical trace: a list of event lines.
type Trace struct {
	Events        []string
	StackOverflow bool   // some call hit call-stack exhaustion: equality after it is inconclusive
	Internal      string // non-empty: an internal failure of the runtime was observed (BUG / Go runtime error)
	CompileErr    string
}

func (t *Trace) add(format string, a ...any) { t.Events = append(t.Events, fmt.Sprintf(format, a...)) }

var reWasmErr = regexp.MustCompile(`wasm error: ([a-z ]+)`)

// ErrClass maps an error from the public surface to a stable class.
func ErrClass(err error) string {
	if err == nil {
		return "ok"
	}
	var ee *sys.ExitError
	if errors.As(err, &ee) {
		return fmt.Sprintf("exit(%d)", ee.ExitCode())
	}
	s := err.Error()
	if m := reWasmErr.FindStringSubmatch(s); m != nil {
		return "trap:" + strings.TrimSpace(m[1])
	}
	if strings.Contains(s, "(recovered by wazero)") {
		first := s
		if i := strings.IndexByte(first, '\n'); i > 0 {
			first = first[:i]
		}
		if strings.Contains(s, "runtime error") || strings.Contains(s, "BUG") {
			return "INTERNAL:" + first
		}
		return "hostpanic:" + first
	}
	first := s
	if i := strings.IndexByte(first, '\n'); i > 0 {
		first = first[:i]
	}
	return "error:" + first
}

// Features returns the core features a program needs.
func Features(cfg wgen.Config) api.CoreFeatures {
	f := api.CoreFeaturesV2
	if cfg.Threads {
		f |= experimental.CoreFeaturesThreads
	}
	if cfg.TailCall {
		f |= experimental.CoreFeaturesTailCall
	}
	return f
}

type hostState struct {
	t       *Trace
	counter uint64
	depth   int
}

// hostStates maps the calling instance to its own host-side state, so that
// the harness's host functions do not themselves couple instances.
type hostStates struct {
	mu sync.Mutex
	m  map[api.Module]*hostState
	// def is used for calls made while the instance is not registered yet (start functions)
	def *hostState
}

func (h *hostStates) get(mod api.Module) *hostState {
	h.mu.Lock()
	defer h.mu.Unlock()
	if s, ok := h.m[mod]; ok {
		return s
	}
	return h.def
}

func mix(h uint64, v uint64) uint64 {
	h ^= v + 0x9E3779B97F4A7C15 + (h << 6) + (h >> 2)
	h *= 0xBF58476D1CE4E5B9
	return h ^ (h >> 29)
}

func canonVal(t wenc.ValType, v uint64) uint64 {
	if t == wenc.I32 || t == wenc.F32 {
		return v & 0xffffffff
	}
	return v
}

// BuildHost instantiates module "env" for p on rt.
func BuildHost(ctx context.Context, rt wazero.Runtime, p *wgen.Program, hss *hostStates, hostClose bool, onReenter ...func(bool)) error {
	if len(p.Host) == 0 {
		return nil
	}
	b := rt.NewHostModuleBuilder(p.Cfg.HostModuleName())
	for hi, h := range p.Host {
		h := h
		hi := hi
		var fn api.GoModuleFunc
		switch h.Kind {
		case "log":
			fn = func(ctx context.Context, mod api.Module, stack []uint64) {
				hs := hss.get(mod)
				hs.counter++
				acc := mix(uint64(hi+1), hs.counter)
				args := make([]uint64, len(h.Params))
				for i, t := range h.Params {
					args[i] = canonVal(t, stack[i])
					acc = mix(acc, args[i])
				}
				res := make([]uint64, len(h.Results))
				for i, t := range h.Results {
					acc = mix(acc, uint64(i))
					v := acc
					if t == wenc.F32 || t == wenc.F64 {
						// avoid handing NaNs with random payloads to float ops: small integers as floats
						if t == wenc.F32 {
							v = uint64(api.EncodeF32(float32(int32(acc%2001) - 1000)))
						} else {
							v = api.EncodeF64(float64(int64(acc%2000001)-1000000) / 8)
						}
					}
					res[i] = canonVal(t, v)
					stack[i] = res[i]
				}
				hs.t.add("  host %s(%s) -> [%s]", h.Name, hexList(args), hexList(res))
			}
		case "cb":
			fn = func(ctx context.Context, mod api.Module, stack []uint64) {
				hs := hss.get(mod)
				arg := uint32(stack[0])
				hs.t.add("  host hcb(%#x) depth=%d", arg, hs.depth)
				if hs.depth >= 2 {
					stack[0] = uint64(arg ^ 0x5a5a)
					return
				}
				hs.depth++
				for _, f := range onReenter {
					if f != nil {
						f(true)
					}
				}
				res, err := mod.ExportedFunction("f0").Call(ctx, uint64(arg&0xff))
				for _, f := range onReenter {
					if f != nil {
						f(false)
					}
				}
				hs.depth--
				if err != nil {
					cls := ErrClass(err)
					hs.t.add("  hcb: nested f0 -> %s", cls)
					if strings.HasPrefix(cls, "trap:stack overflow") {
						hs.t.StackOverflow = true
					}
					if strings.HasPrefix(cls, "INTERNAL") {
						hs.t.Internal = cls
					}
					stack[0] = 0xdead
					return
				}
				hs.t.add("  hcb: nested f0 -> [%#x]", uint32(res[0]))
				stack[0] = uint64(uint32(res[0]) + 1)
			}
		case "close":
			fn = func(ctx context.Context, mod api.Module, stack []uint64) {
				hs := hss.get(mod)
				arg := uint32(stack[0])
				if hostClose && arg%3 == 0 && !mod.IsClosed() {
					mod.CloseWithExitCode(ctx, 7)
					hs.t.add("  host hclose(%#x) -> closed the module with exit code 7", arg)
					stack[0] = 1
					return
				}
				hs.t.add("  host hclose(%#x) -> no-op", arg)
				stack[0] = 0
			}
		case "grow":
			fn = func(ctx context.Context, mod api.Module, stack []uint64) {
				hs := hss.get(mod)
				d := uint32(stack[0]) & 1
				prev, ok := mod.Memory().Grow(d)
				hs.t.add("  host hgrow(%d) -> %d,%v", d, prev, ok)
				if !ok {
					prev = 0xffffffff
				}
				stack[0] = uint64(prev)
			}
		case "write":
			fn = func(ctx context.Context, mod api.Module, stack []uint64) {
				hs := hss.get(mod)
				off, val := uint32(stack[0])&0xffff, uint32(stack[1])
				ok := mod.Memory().WriteUint32Le(off, val)
				hs.t.add("  host hwrite(%#x,%#x) -> %v", off, val, ok)
			}
		}
		b.NewFunctionBuilder().WithGoModuleFunction(fn, h.Params, h.Results).Export(h.Name)
	}
	_, err := b.Instantiate(ctx)
	return err
}

// Session is one runtime in which instances of generated programs live.
type Session struct {
	Ctx   context.Context
	Rt    wazero.Runtime
	opt   Options
	hosts map[string]*hostStates
	cms   map[*wgen.Program]wazero.CompiledModule
}

// NewSession creates a runtime for programs needing the given features.
func NewSession(opt Options, feats api.CoreFeatures) *Session {
	ctx := opt.Ctx
	if ctx == nil {
		ctx = context.Background()
	}
	var rc wazero.RuntimeConfig
	if opt.Compiler {
		rc = wazero.NewRuntimeConfigCompiler()
	} else {
		rc = wazero.NewRuntimeConfigInterpreter()
	}
	rc = rc.WithCoreFeatures(feats)
	if opt.RuntimeConfig != nil {
		rc = opt.RuntimeConfig(rc)
	}
	return &Session{Ctx: ctx, Rt: wazero.NewRuntimeWithConfig(ctx, rc), opt: opt, hosts: map[string]*hostStates{}, cms: map[*wgen.Program]wazero.CompiledModule{}}
}

func (s *Session) Close() { s.Rt.Close(s.Ctx) }

// Compile compiles p in this session without instantiating ("" = ok).
func (s *Session) Compile(p *wgen.Program) string {
	if s.cms[p] != nil {
		return ""
	}
	cm, err := s.Rt.CompileModule(s.Ctx, p.Bin)
	if err != nil {
		return firstLine(err.Error())
	}
	s.cms[p] = cm
	return ""
}

// CloseCompiled closes this session's CompiledModule of p.
func (s *Session) CloseCompiled(p *wgen.Program) {
	if cm := s.cms[p]; cm != nil {
		cm.Close(s.Ctx)
		delete(s.cms, p)
	}
}

// Inst is one instance with its own trace.
type Inst struct {
	S   *Session
	P   *wgen.Program
	Mod api.Module
	T   *Trace
	fns map[string]api.Function // handles kept across steps
}

// Instantiate compiles p (once per session) and instantiates it under name.
// The returned Inst has Mod == nil when compile/instantiate failed (recorded in the trace).
func (s *Session) Instantiate(p *wgen.Program, name string) *Inst {
	in := &Inst{S: s, P: p, T: &Trace{}}
	t := in.T
	hn := p.Cfg.HostModuleName()
	hss := s.hosts[hn]
	if hss == nil && len(p.Host) > 0 {
		hss = &hostStates{m: map[api.Module]*hostState{}}
		if err := BuildHost(s.Ctx, s.Rt, p, hss, s.opt.HostClose, s.opt.OnReenter); err != nil {
			t.add("host module error: %v", err)
			return in
		}
		s.hosts[hn] = hss
	}
	cm := s.cms[p]
	if cm == nil {
		var err error
		cm, err = s.Rt.CompileModule(s.Ctx, p.Bin)
		if err != nil {
			t.CompileErr = err.Error()
			t.add("compile error: %s", firstLine(err.Error()))
			return in
		}
		s.cms[p] = cm
	}
	hs := &hostState{t: t}
	if hss != nil {
		hss.mu.Lock()
		hss.def = hs // start function runs before the instance is known
		hss.mu.Unlock()
	}
	mod, err := s.Rt.InstantiateModule(s.Ctx, cm, wazero.NewModuleConfig().WithName(name))
	if err != nil {
		cls := ErrClass(err)
		noteClass(t, cls)
		t.add("instantiate: %s", cls)
		return in
	}
	if hss != nil {
		hss.mu.Lock()
		hss.m[mod] = hs
		hss.mu.Unlock()
	}
	in.Mod = mod
	t.add("instantiate: ok")
	if !s.opt.NoDigest {
		t.add("%s", Digest(mod, p))
	}
	return in
}

// Step executes one script step on the instance.
func (in *Inst) Step(si int, s Step) {
	if in.Mod == nil {
		return
	}
	t, mod, ctx, p := in.T, in.Mod, in.S.Ctx, in.P
	switch s.Kind {
	case "call":
		fuel := in.S.opt.Fuel
		if fuel == 0 {
			fuel = p.Cfg.Fuel
		}
		if _, err := mod.ExportedFunction("__setfuel").Call(ctx, uint64(uint32(fuel))); err != nil {
			t.add("setfuel: %s", ErrClass(err))
		}
		// embedders keep api.Function handles: reuse the handle of earlier steps (three steps out of four), so that
		// state left in a call engine by an earlier (failed) call is seen by later calls
		f := in.fns[s.Fn]
		if f == nil || si%4 == 3 {
			f = mod.ExportedFunction(s.Fn)
			if in.fns == nil {
				in.fns = map[string]api.Function{}
			}
			in.fns[s.Fn] = f
		}
		res, err := f.Call(ctx, s.Args...)
		if err != nil {
			cls := ErrClass(err)
			noteClass(t, cls)
			t.add("%s -> %s", s.String(), cls)
		} else {
			t.add("%s -> [%s]", s.String(), hexList(canonResults(f.Definition().ResultTypes(), res)))
		}
	case "memwrite":
		ok := mod.Memory().WriteUint64Le(s.Off, s.Val)
		t.add("%s -> %v", s.String(), ok)
	case "memgrow":
		prev, ok := mod.Memory().Grow(uint32(s.Val))
		t.add("%s -> %d,%v", s.String(), prev, ok)
	case "globalset":
		if g, ok := mod.ExportedGlobal(s.Fn).(api.MutableGlobal); ok {
			g.Set(s.Val)
			t.add("%s", s.String())
		}
	}
	if !in.S.opt.NoDigest {
		t.add("%s", Digest(mod, p))
	}
	if in.S.opt.OnStep != nil {
		in.S.opt.OnStep(si, mod)
	}
}

// Run executes the script on a lone instance in a fresh runtime and returns the trace.
func Run(p *wgen.Program, script []Step, opt Options) *Trace {
	s := NewSession(opt, Features(p.Cfg))
	defer s.Close()
	in := s.Instantiate(p, "guest")
	for si, st := range script {
		in.Step(si, st)
	}
	return in.T
}

func noteClass(t *Trace, cls string) {
	if strings.HasPrefix(cls, "trap:stack overflow") {
		t.StackOverflow = true
	}
	if strings.HasPrefix(cls, "INTERNAL") {
		t.Internal = cls
	}
}

func canonResults(ts []api.ValueType, res []uint64) []uint64 {
	out := make([]uint64, len(res))
	copy(out, res)
	// v128 results occupy two slots; api reports ValueTypeV128 once per value
	j := 0
	for _, t := range ts {
		if j >= len(out) {
			break
		}
		switch t {
		case api.ValueTypeI32, api.ValueTypeF32:
			out[j] &= 0xffffffff
			j++
		case wenc.V128:
			j += 2
		default:
			j++
		}
	}
	return out
}

func firstLine(s string) string {
	if i := strings.IndexByte(s, '\n'); i > 0 {
		return s[:i]
	}
	return s
}

// Digest summarises the observable state of an instance of p.
func Digest(mod api.Module, p *wgen.Program) string {
	var sb strings.Builder
	mem := mod.Memory()
	if mem != nil {
		pages, _ := mem.Grow(0)
		h := sha256.New()
		if b, ok := mem.Read(0, pages*65536); ok || pages == 0 {
			h.Write(b)
		}
		fmt.Fprintf(&sb, "  state: mem=%dp/%s", pages, hex.EncodeToString(h.Sum(nil))[:16])
	}
	sb.WriteString(" globals=[")
	for _, g := range p.Globals {
		if eg := mod.ExportedGlobal(g.Name); eg != nil {
			fmt.Fprintf(&sb, "%#x,", canonVal(g.Type, eg.Get()))
		}
	}
	if eg := mod.ExportedGlobal("__fuel"); eg != nil {
		fmt.Fprintf(&sb, "fuel=%d", uint32(eg.Get()))
	}
	sb.WriteString("] table=[")
	if ts := mod.ExportedFunction("__tsize"); ts != nil {
		if r, err := ts.Call(context.Background()); err == nil {
			n := uint32(r[0])
			for i := uint32(0); i < n && i < 64; i++ {
				sb.WriteString(tableSlot(mod, p, i))
				sb.WriteByte(',')
			}
		}
	}
	sb.WriteString("]")
	return sb.String()
}

func tableSlot(mod api.Module, p *wgen.Program, i uint32) (out string) {
	r, err := mod.ExportedFunction("__tnull").Call(context.Background(), uint64(i))
	if err != nil {
		return "err"
	}
	if r[0] == 1 {
		return "null"
	}
	for ti, ft := range p.Types {
		if s := lookup(mod, i, ft); s != "" {
			return fmt.Sprintf("t%d.%s", ti, s)
		}
	}
	return "?"
}

// lookup resolves a table slot to "<module>.<function index>" if the element
// has type ft. It goes through the module engine directly (internal API):
// experimental/table.LookupFunction raises Go runtime errors for host
// functions stored in tables unless listeners happen to be attached.
func lookup(mod api.Module, i uint32, ft wenc.FuncType) (out string) {
	defer func() {
		if recover() != nil {
			out = ""
		}
	}()
	m, ok := mod.(*wasm.ModuleInstance)
	if !ok || len(m.Tables) == 0 {
		return ""
	}
	typ := &wasm.FunctionType{Params: ft.Params, Results: ft.Results}
	typ.CacheNumInUint64()
	// only the function index is used: for host functions the compiler engine's
	// LookupFunction returns a pointer that is not a *ModuleInstance.
	// Only the fact that the element has this type is used: the function index the engines
	// return is not comparable (the compiler's is unreliable for imported functions).
	m.Engine.LookupFunction(m.Tables[0], m.GetFunctionTypeID(typ), i)
	return "fn"
}

// Diff returns the index and text of the first differing event ("" if equal).
func Diff(a, b *Trace) (int, string) {
	n := len(a.Events)
	if len(b.Events) < n {
		n = len(b.Events)
	}
	for i := 0; i < n; i++ {
		if a.Events[i] != b.Events[i] {
			return i, fmt.Sprintf("event %d:\n  A: %s\n  B: %s", i, a.Events[i], b.Events[i])
		}
	}
	if len(a.Events) != len(b.Events) {
		return n, fmt.Sprintf("length %d vs %d", len(a.Events), len(b.Events))
	}
	return -1, ""
}
