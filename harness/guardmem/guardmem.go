// Package guardmem is a red-zone sanitizer for wasm linear memory: a custom
// experimental.MemoryAllocator that reserves
//
//	[ Guard bytes PROT_NONE | max bytes | Guard bytes PROT_NONE ]
//
// and makes only [0,size) of the middle readable/writable. Because a wasm
// memory size is a multiple of 64 KiB the upper red zone starts exactly at
// `size`: every out-of-bounds byte within ±Guard of the memory faults, which
// kills the process with "unexpected fault address" (the supervisor maps the
// address back with Describe).
package guardmem

import (
	"fmt"
	"os"
	"sync"
	"syscall"
	"unsafe"

	"github.com/tetratelabs/wazero/experimental"
)

// Guard is the size of each red zone (8 GiB: base + two 32-bit quantities stay inside).
const Guard = uint64(8) << 30

type Region struct {
	Base uintptr // address of byte 0 of the linear memory
	Max  uint64
	Size uint64
	all  []byte
}

type Allocator struct {
	mu      sync.Mutex
	Regions []*Region
	// Moving makes every Reallocate return a region at a new address (old one
	// becomes PROT_NONE), to catch stale cached base pointers.
	Moving bool
	// Announce writes "GUARDMEM base=… max=…" lines to stderr for the supervisor.
	Announce bool
}

func New() *Allocator { return &Allocator{} }

func (a *Allocator) Allocate(cap, max uint64) experimental.LinearMemory {
	lm := &linearMemory{a: a, max: max}
	lm.reserve()
	return lm
}

type linearMemory struct {
	a   *Allocator
	max uint64
	r   *Region
}

func (m *linearMemory) reserve() {
	total := Guard + m.max + Guard
	b, err := syscall.Mmap(-1, 0, int(total), syscall.PROT_NONE, syscall.MAP_PRIVATE|syscall.MAP_ANON|syscall.MAP_NORESERVE)
	if err != nil {
		panic(fmt.Sprintf("guardmem: mmap %d: %v", total, err))
	}
	r := &Region{Base: uintptr(unsafe.Pointer(&b[0])) + uintptr(Guard), Max: m.max, all: b}
	m.r = r
	m.a.mu.Lock()
	m.a.Regions = append(m.a.Regions, r)
	m.a.mu.Unlock()
	if m.a.Announce {
		fmt.Fprintf(os.Stderr, "GUARDMEM base=%#x max=%#x\n", r.Base, r.Max)
	}
}

func (m *linearMemory) Reallocate(size uint64) []byte {
	if size > m.max {
		return nil
	}
	if m.a.Moving && m.r.Size != 0 && size != m.r.Size {
		old := m.r
		m.reserve()
		if size > 0 {
			if err := syscall.Mprotect(m.r.all[Guard:Guard+size], syscall.PROT_READ|syscall.PROT_WRITE); err != nil {
				panic(err)
			}
			n := old.Size
			if size < n {
				n = size
			}
			copy(m.r.all[Guard:Guard+n], old.all[Guard:Guard+n])
		}
		m.r.Size = size
		// old region: fully inaccessible from now on
		syscall.Mprotect(old.all[Guard:Guard+old.Size], syscall.PROT_NONE)
		old.Size = 0
		return m.r.all[Guard : Guard+size : Guard+m.max]
	}
	if size > m.r.Size {
		if err := syscall.Mprotect(m.r.all[Guard+m.r.Size:Guard+size], syscall.PROT_READ|syscall.PROT_WRITE); err != nil {
			panic(err)
		}
	}
	m.r.Size = size
	return m.r.all[Guard : Guard+size : Guard+m.max]
}

func (m *linearMemory) Free() {
	if m.r != nil && m.r.all != nil {
		syscall.Munmap(m.r.all)
		m.r.all = nil
		m.r.Size = 0
	}
}

// FreeAll unmaps everything still mapped.
func (a *Allocator) FreeAll() {
	a.mu.Lock()
	defer a.mu.Unlock()
	for _, r := range a.Regions {
		if r.all != nil {
			syscall.Munmap(r.all)
			r.all = nil
		}
	}
	a.Regions = nil
}

// Describe maps a fault address to "membase-0x…" / "membase+size+0x…" text.
func Describe(addr, base, size uint64) string {
	switch {
	case addr < base:
		return fmt.Sprintf("below memory base by %#x", base-addr)
	case addr >= base+size:
		return fmt.Sprintf("beyond memory end by %#x", addr-(base+size))
	}
	return fmt.Sprintf("inside memory at %#x", addr-base)
}
