// Package wdis is a minimal WebAssembly function-body disassembler used to
// print witnesses (names come from wazero's instruction name tables; the
// immediates are decoded here).
package wdis

import (
	"bytes"
	"encoding/binary"
	"fmt"
	"strings"

	"github.com/tetratelabs/wazero/api"
	"github.com/tetratelabs/wazero/experimental"
	"github.com/tetratelabs/wazero/internal/leb128"
	"github.com/tetratelabs/wazero/internal/wasm"
	binaryformat "github.com/tetratelabs/wazero/internal/wasm/binary"
)

// Module disassembles every function of a binary.
func Module(bin []byte) string {
	feat := api.CoreFeaturesV2 | experimental.CoreFeaturesThreads | experimental.CoreFeaturesTailCall
	m, err := binaryformat.DecodeModule(bin, feat, 65536, false, false, false)
	if err != nil {
		return "decode error: " + err.Error()
	}
	var sb strings.Builder
	for i, t := range m.TypeSection {
		fmt.Fprintf(&sb, "type %d: %s\n", i, t.String())
	}
	for i, im := range m.ImportSection {
		fmt.Fprintf(&sb, "import %d: %s.%s kind=%d\n", i, im.Module, im.Name, im.Type)
	}
	for i, g := range m.GlobalSection {
		fmt.Fprintf(&sb, "global %d: type=%s mut=%v init=%x\n", int(m.ImportGlobalCount)+i, wasm.ValueTypeName(g.Type.ValType), g.Type.Mutable, g.Init.Data)
	}
	for _, e := range m.ExportSection {
		fmt.Fprintf(&sb, "export %q kind=%d idx=%d\n", e.Name, e.Type, e.Index)
	}
	for i := range m.CodeSection {
		c := &m.CodeSection[i]
		ft := m.TypeSection[m.FunctionSection[i]]
		fmt.Fprintf(&sb, "func %d type=%s locals=%v\n", int(m.ImportFunctionCount)+i, ft.String(), names(c.LocalTypes))
		sb.WriteString(Body(c.Body))
	}
	return sb.String()
}

func names(ts []wasm.ValueType) []string {
	out := make([]string, len(ts))
	for i, t := range ts {
		out[i] = wasm.ValueTypeName(t)
	}
	return out
}

// Instr is one decoded instruction of a body.
type Instr struct {
	Pos, End int
	Name     string
	Depth    int // nesting depth before the instruction
	Text     string
}

// Body disassembles one function body.
func Body(b []byte) string {
	var sb strings.Builder
	for _, in := range Instrs(b) {
		sb.WriteString(in.Text)
	}
	return sb.String()
}

// Instrs decodes the instruction boundaries of a body.
func Instrs(b []byte) []Instr {
	var out []Instr
	var sb strings.Builder
	r := bytes.NewReader(b)
	indent := 1
	u32 := func() uint32 { v, _, _ := leb128.DecodeUint32(r); return v }
	for r.Len() > 0 {
		pos := len(b) - r.Len()
		op, _ := r.ReadByte()
		name := wasm.InstructionName(op)
		switch op {
		case wasm.OpcodeTailCallReturnCall:
			name = "return_call"
		case wasm.OpcodeTailCallReturnCallIndirect:
			name = "return_call_indirect"
		}
		imm := ""
		switch op {
		case wasm.OpcodeBlock, wasm.OpcodeLoop, wasm.OpcodeIf:
			v, _, _ := leb128.DecodeInt33AsInt64(r)
			imm = fmt.Sprintf(" bt=%d", v)
		case wasm.OpcodeBr, wasm.OpcodeBrIf, wasm.OpcodeCall, wasm.OpcodeLocalGet, wasm.OpcodeLocalSet, wasm.OpcodeLocalTee,
			wasm.OpcodeGlobalGet, wasm.OpcodeGlobalSet, wasm.OpcodeRefFunc, wasm.OpcodeTableGet, wasm.OpcodeTableSet, wasm.OpcodeTailCallReturnCall:
			imm = fmt.Sprintf(" %d", u32())
		case wasm.OpcodeCallIndirect, wasm.OpcodeTailCallReturnCallIndirect:
			imm = fmt.Sprintf(" type=%d table=%d", u32(), u32())
		case wasm.OpcodeBrTable:
			n := u32()
			var ls []uint32
			for i := uint32(0); i <= n; i++ {
				ls = append(ls, u32())
			}
			imm = fmt.Sprintf(" %v", ls)
		case wasm.OpcodeI32Const:
			v, _, _ := leb128.DecodeInt32(r)
			imm = fmt.Sprintf(" %d (%#x)", v, uint32(v))
		case wasm.OpcodeI64Const:
			v, _, _ := leb128.DecodeInt64(r)
			imm = fmt.Sprintf(" %d (%#x)", v, uint64(v))
		case wasm.OpcodeF32Const:
			var x [4]byte
			r.Read(x[:])
			imm = fmt.Sprintf(" bits=%#x", binary.LittleEndian.Uint32(x[:]))
		case wasm.OpcodeF64Const:
			var x [8]byte
			r.Read(x[:])
			imm = fmt.Sprintf(" bits=%#x", binary.LittleEndian.Uint64(x[:]))
		case wasm.OpcodeMemorySize, wasm.OpcodeMemoryGrow, wasm.OpcodeRefNull:
			x, _ := r.ReadByte()
			imm = fmt.Sprintf(" %#x", x)
		case wasm.OpcodeTypedSelect:
			n := u32()
			for i := uint32(0); i < n; i++ {
				r.ReadByte()
			}
		case wasm.OpcodeMiscPrefix:
			sub := u32()
			name = wasm.MiscInstructionName(byte(sub))
			switch byte(sub) {
			case wasm.OpcodeMiscMemoryInit:
				imm = fmt.Sprintf(" data=%d", u32())
				r.ReadByte()
			case wasm.OpcodeMiscDataDrop, wasm.OpcodeMiscElemDrop, wasm.OpcodeMiscTableGrow, wasm.OpcodeMiscTableSize, wasm.OpcodeMiscTableFill:
				imm = fmt.Sprintf(" %d", u32())
			case wasm.OpcodeMiscMemoryCopy:
				r.ReadByte()
				r.ReadByte()
			case wasm.OpcodeMiscMemoryFill:
				r.ReadByte()
			case wasm.OpcodeMiscTableInit, wasm.OpcodeMiscTableCopy:
				imm = fmt.Sprintf(" %d %d", u32(), u32())
			}
		case wasm.OpcodeVecPrefix:
			sub := u32()
			name = wasm.VectorInstructionName(byte(sub))
			switch {
			case byte(sub) <= wasm.OpcodeVecV128Store || byte(sub) == wasm.OpcodeVecV128Load32zero || byte(sub) == wasm.OpcodeVecV128Load64zero:
				imm = fmt.Sprintf(" align=%d offset=%d", u32(), u32())
			case byte(sub) >= wasm.OpcodeVecV128Load8Lane && byte(sub) <= wasm.OpcodeVecV128Store64Lane:
				a, o := u32(), u32()
				l, _ := r.ReadByte()
				imm = fmt.Sprintf(" align=%d offset=%d lane=%d", a, o, l)
			case byte(sub) == wasm.OpcodeVecV128Const || byte(sub) == wasm.OpcodeVecV128i8x16Shuffle:
				var x [16]byte
				r.Read(x[:])
				imm = fmt.Sprintf(" %x", x)
			case byte(sub) >= wasm.OpcodeVecI8x16ExtractLaneS && byte(sub) <= wasm.OpcodeVecF64x2ReplaceLane:
				l, _ := r.ReadByte()
				imm = fmt.Sprintf(" lane=%d", l)
			}
		case wasm.OpcodeAtomicPrefix:
			sub, _ := r.ReadByte()
			name = wasm.AtomicInstructionName(sub)
			if sub == wasm.OpcodeAtomicFence {
				r.ReadByte()
			} else {
				imm = fmt.Sprintf(" align=%d offset=%d", u32(), u32())
			}
		default:
			if op >= wasm.OpcodeI32Load && op <= wasm.OpcodeI64Store32 {
				imm = fmt.Sprintf(" align=%d offset=%d", u32(), u32())
			}
		}
		if op == wasm.OpcodeEnd || op == wasm.OpcodeElse {
			indent--
		}
		if indent < 0 {
			indent = 0
		}
		sb.Reset()
		fmt.Fprintf(&sb, "  %04x %s%s%s\n", pos, strings.Repeat("  ", indent), name, imm)
		out = append(out, Instr{Pos: pos, End: len(b) - r.Len(), Name: name, Depth: indent, Text: sb.String()})
		if op == wasm.OpcodeBlock || op == wasm.OpcodeLoop || op == wasm.OpcodeIf || op == wasm.OpcodeElse {
			indent++
		}
	}
	return out
}
