// Package refsem is an independent reference implementation of the semantics of
// every numeric instruction listed in package wops, written from the
// WebAssembly 2.0 specification (Numerics section). It uses no wazero code
// (in particular not internal/moremath). Integers are computed by definition;
// float add/sub/mul/div/sqrt and demote/promote use Go's IEEE arithmetic on the
// exact type; everything else on floats (min, max, rounding, copysign, compare,
// float<->int conversions) is done by explicit cases on the bit patterns.
//
// The spec leaves the bits of NaN results open for some instructions; a Result
// therefore describes a *set* of acceptable values: per float lane either the
// exact bits, "any canonical NaN" or "any arithmetic NaN".
package refsem

import (
	"fmt"
	"math"
	"math/bits"
	"strings"

	"github.com/tetratelabs/wazero/verifharness/wops"
)

// Val holds any wasm numeric value: i32/f32 in the low 32 bits of Lo, i64/f64
// in Lo, v128 little-endian in Lo (bytes 0..7) and Hi (bytes 8..15).
type Val struct{ Lo, Hi uint64 }

func (v Val) String() string { return fmt.Sprintf("%016x_%016x", v.Hi, v.Lo) }

// Lane returns lane i of width w bits (8, 16, 32, 64).
func (v Val) Lane(w, i int) uint64 {
	off := i * w
	x := v.Lo
	if off >= 64 {
		x = v.Hi
		off -= 64
	}
	if w == 64 {
		return x
	}
	return x >> uint(off) & (1<<uint(w) - 1)
}

// SetLane stores the low w bits of x into lane i.
func (v *Val) SetLane(w, i int, x uint64) {
	off := i * w
	p := &v.Lo
	if off >= 64 {
		p = &v.Hi
		off -= 64
	}
	if w == 64 {
		*p = x
		return
	}
	m := uint64(1)<<uint(w) - 1
	*p = *p&^(m<<uint(off)) | (x&m)<<uint(off)
}

// Bytes returns the 16 little-endian bytes.
func (v Val) Bytes() [16]byte {
	var b [16]byte
	for i := 0; i < 8; i++ {
		b[i] = byte(v.Lo >> (8 * uint(i)))
		b[8+i] = byte(v.Hi >> (8 * uint(i)))
	}
	return b
}

func FromBytes(b []byte) Val {
	var v Val
	for i := 0; i < 8 && i < len(b); i++ {
		v.Lo |= uint64(b[i]) << (8 * uint(i))
	}
	for i := 8; i < 16 && i < len(b); i++ {
		v.Hi |= uint64(b[i]) << (8 * uint(i-8))
	}
	return v
}

// Trap is the trap class of an instruction.
type Trap uint8

const (
	NoTrap Trap = iota
	TrapDivByZero
	TrapIntOverflow
	TrapInvalidConversion
	TrapOther // ClassifyErr: an error that is none of the three numeric traps
)

func (t Trap) String() string {
	switch t {
	case NoTrap:
		return "no trap"
	case TrapDivByZero:
		return "integer divide by zero"
	case TrapIntOverflow:
		return "integer overflow"
	case TrapInvalidConversion:
		return "invalid conversion to integer"
	}
	return "other error"
}

// ClassifyErr maps an error returned by a wazero call to its trap class by the
// `wasm error: ...` text.
func ClassifyErr(err error) Trap {
	if err == nil {
		return NoTrap
	}
	s := err.Error()
	switch {
	case strings.Contains(s, "wasm error: integer divide by zero"):
		return TrapDivByZero
	case strings.Contains(s, "wasm error: integer overflow"):
		return TrapIntOverflow
	case strings.Contains(s, "wasm error: invalid conversion to integer"):
		return TrapInvalidConversion
	}
	return TrapOther
}

// NaNClass describes what is acceptable in one float lane of a result.
type NaNClass uint8

const (
	Exact      NaNClass = iota // exactly the bits in Result.V
	Canonical                  // any canonical NaN (sign free, payload = 1 << (mbits-1))
	Arithmetic                 // any arithmetic NaN (quiet bit set, sign and rest of payload free)
)

func (c NaNClass) String() string { return [...]string{"exact", "nan:canonical", "nan:arithmetic"}[c] }

// Result is the reference outcome of one instruction instance.
type Result struct {
	Trap  Trap
	V     Val        // the value (NaN lanes hold the positive canonical NaN)
	Shape wops.Shape // result shape of the instruction
	NaN   [4]NaNClass
}

// Deterministic reports whether exactly one value is acceptable.
func (r Result) Deterministic() bool { return r.NaN == [4]NaNClass{} }

// Accepts reports whether got (bits as delivered by the engine; for scalars only
// the low LaneBits are looked at) is in the set the specification allows.
func (r Result) Accepts(got Val) bool {
	if r.Trap != NoTrap {
		return false
	}
	if !r.Shape.IsVector() {
		w := r.Shape.LaneBits()
		g, e := got.Lane(w, 0), r.V.Lane(w, 0)
		if w == 64 {
			g, e = got.Lo, r.V.Lo
		}
		return laneOK(r.NaN[0], w, g, e)
	}
	if r.Deterministic() {
		return got == r.V
	}
	w := r.Shape.LaneBits()
	for i := 0; i < r.Shape.Lanes(); i++ {
		if !laneOK(r.NaN[i], w, got.Lane(w, i), r.V.Lane(w, i)) {
			return false
		}
	}
	return true
}

func laneOK(c NaNClass, w int, got, want uint64) bool {
	f := f64
	if w == 32 {
		f = f32
	}
	switch c {
	case Canonical:
		return f.isCanon(got)
	case Arithmetic:
		return f.isArith(got)
	}
	return got == want
}

func (r Result) String() string {
	if r.Trap != NoTrap {
		return "trap: " + r.Trap.String()
	}
	s := r.V.String()
	if !r.Shape.IsVector() {
		w := r.Shape.LaneBits()
		s = fmt.Sprintf("%0*x", w/4, r.V.Lane(w, 0))
		if r.NaN[0] != Exact {
			return r.NaN[0].String()
		}
		return s
	}
	if !r.Deterministic() {
		s += " lanes["
		for i := 0; i < r.Shape.Lanes(); i++ {
			if i > 0 {
				s += ","
			}
			s += r.NaN[i].String()
		}
		s += "]"
	}
	return s
}

// Has reports whether the row has a reference function (must be true for every row).
func Has(op *wops.Op) bool { return op.Index < len(impls) && impls[op.Index] != nil }

// Eval computes the reference result of op with the given immediate bytes and operands.
func Eval(op *wops.Op, imm []byte, args []Val) Result {
	r := impls[op.Index](imm, args)
	r.Shape = op.Result
	return r
}

type evalFn func(imm []byte, a []Val) Result

var impls []evalFn

// ---------------------------------------------------------------------------
// integers (width w in {8,16,32,64}; operands are given zero-extended or with
// garbage above w: every function masks)

func mask(w int) uint64 {
	if w == 64 {
		return ^uint64(0)
	}
	return 1<<uint(w) - 1
}

// sx sign-extends the low w bits.
func sx(x uint64, w int) int64 { return int64(x<<uint(64-w)) >> uint(64-w) }

func b2u(b bool) uint64 {
	if b {
		return 1
	}
	return 0
}

func iclz(x uint64, w int) uint64 {
	x &= mask(w)
	if x == 0 {
		return uint64(w)
	}
	return uint64(bits.LeadingZeros64(x) - (64 - w))
}

func ictz(x uint64, w int) uint64 {
	x &= mask(w)
	if x == 0 {
		return uint64(w)
	}
	return uint64(bits.TrailingZeros64(x))
}

func ipopcnt(x uint64, w int) uint64 {
	x &= mask(w)
	n := uint64(0)
	for ; x != 0; x &= x - 1 {
		n++
	}
	return n
}

func idivS(a, b uint64, w int) (uint64, Trap) {
	sa, sb := sx(a, w), sx(b, w)
	if sb == 0 {
		return 0, TrapDivByZero
	}
	if sb == -1 && sa == -(1<<uint(w-1)) { // also correct for w=64: -(1<<63) wraps to MinInt64
		return 0, TrapIntOverflow
	}
	if sb == -1 {
		return uint64(-sa) & mask(w), NoTrap
	}
	return uint64(sa/sb) & mask(w), NoTrap // Go truncates toward zero like the spec
}

func idivU(a, b uint64, w int) (uint64, Trap) {
	a &= mask(w)
	b &= mask(w)
	if b == 0 {
		return 0, TrapDivByZero
	}
	return a / b, NoTrap
}

func iremS(a, b uint64, w int) (uint64, Trap) {
	sa, sb := sx(a, w), sx(b, w)
	if sb == 0 {
		return 0, TrapDivByZero
	}
	if sb == -1 {
		return 0, NoTrap
	}
	return uint64(sa%sb) & mask(w), NoTrap // sign of the dividend
}

func iremU(a, b uint64, w int) (uint64, Trap) {
	a &= mask(w)
	b &= mask(w)
	if b == 0 {
		return 0, TrapDivByZero
	}
	return a % b, NoTrap
}

func ishl(a, b uint64, w int) uint64  { return (a & mask(w)) << (b % uint64(w)) & mask(w) }
func ishrU(a, b uint64, w int) uint64 { return (a & mask(w)) >> (b % uint64(w)) }
func ishrS(a, b uint64, w int) uint64 { return uint64(sx(a, w)>>(b%uint64(w))) & mask(w) }
func irotl(a, b uint64, w int) uint64 {
	a &= mask(w)
	k := b % uint64(w)
	if k == 0 {
		return a
	}
	return (a<<k | a>>(uint64(w)-k)) & mask(w)
}
func irotr(a, b uint64, w int) uint64 {
	k := b % uint64(w)
	return irotl(a, (uint64(w)-k)%uint64(w), w)
}

func satS(x int64, w int) uint64 {
	lo, hi := -(int64(1) << uint(w-1)), int64(1)<<uint(w-1)-1
	if x < lo {
		x = lo
	}
	if x > hi {
		x = hi
	}
	return uint64(x) & mask(w)
}

func satU(x int64, w int) uint64 {
	if x < 0 {
		return 0
	}
	if uint64(x) > mask(w) {
		return mask(w)
	}
	return uint64(x)
}

// integer binary ops by name suffix (for scalars and lanes).
func intBinary(name string, w int) func(a, b uint64) uint64 {
	m := mask(w)
	switch name {
	case "add":
		return func(a, b uint64) uint64 { return (a + b) & m }
	case "sub":
		return func(a, b uint64) uint64 { return (a - b) & m }
	case "mul":
		return func(a, b uint64) uint64 { return (a * b) & m }
	case "and":
		return func(a, b uint64) uint64 { return a & b & m }
	case "or":
		return func(a, b uint64) uint64 { return (a | b) & m }
	case "xor":
		return func(a, b uint64) uint64 { return (a ^ b) & m }
	case "shl":
		return func(a, b uint64) uint64 { return ishl(a, b, w) }
	case "shr_s":
		return func(a, b uint64) uint64 { return ishrS(a, b, w) }
	case "shr_u":
		return func(a, b uint64) uint64 { return ishrU(a, b, w) }
	case "rotl":
		return func(a, b uint64) uint64 { return irotl(a, b, w) }
	case "rotr":
		return func(a, b uint64) uint64 { return irotr(a, b, w) }
	case "eq":
		return func(a, b uint64) uint64 { return b2u(a&m == b&m) }
	case "ne":
		return func(a, b uint64) uint64 { return b2u(a&m != b&m) }
	case "lt_s":
		return func(a, b uint64) uint64 { return b2u(sx(a, w) < sx(b, w)) }
	case "lt_u":
		return func(a, b uint64) uint64 { return b2u(a&m < b&m) }
	case "gt_s":
		return func(a, b uint64) uint64 { return b2u(sx(a, w) > sx(b, w)) }
	case "gt_u":
		return func(a, b uint64) uint64 { return b2u(a&m > b&m) }
	case "le_s":
		return func(a, b uint64) uint64 { return b2u(sx(a, w) <= sx(b, w)) }
	case "le_u":
		return func(a, b uint64) uint64 { return b2u(a&m <= b&m) }
	case "ge_s":
		return func(a, b uint64) uint64 { return b2u(sx(a, w) >= sx(b, w)) }
	case "ge_u":
		return func(a, b uint64) uint64 { return b2u(a&m >= b&m) }
	case "min_s":
		return func(a, b uint64) uint64 {
			if sx(a, w) < sx(b, w) {
				return a & m
			}
			return b & m
		}
	case "min_u":
		return func(a, b uint64) uint64 {
			if a&m < b&m {
				return a & m
			}
			return b & m
		}
	case "max_s":
		return func(a, b uint64) uint64 {
			if sx(a, w) > sx(b, w) {
				return a & m
			}
			return b & m
		}
	case "max_u":
		return func(a, b uint64) uint64 {
			if a&m > b&m {
				return a & m
			}
			return b & m
		}
	case "add_sat_s":
		return func(a, b uint64) uint64 { return satS(sx(a, w)+sx(b, w), w) }
	case "add_sat_u":
		return func(a, b uint64) uint64 { return satU(int64(a&m)+int64(b&m), w) }
	case "sub_sat_s":
		return func(a, b uint64) uint64 { return satS(sx(a, w)-sx(b, w), w) }
	case "sub_sat_u":
		return func(a, b uint64) uint64 { return satU(int64(a&m)-int64(b&m), w) }
	case "avgr_u":
		return func(a, b uint64) uint64 { return ((a & m) + (b & m) + 1) >> 1 }
	case "q15mulr_sat_s":
		return func(a, b uint64) uint64 { return satS((sx(a, w)*sx(b, w)+0x4000)>>15, w) }
	}
	return nil
}

func intUnary(name string, w int) func(a uint64) uint64 {
	m := mask(w)
	switch name {
	case "clz":
		return func(a uint64) uint64 { return iclz(a, w) }
	case "ctz":
		return func(a uint64) uint64 { return ictz(a, w) }
	case "popcnt":
		return func(a uint64) uint64 { return ipopcnt(a, w) }
	case "eqz":
		return func(a uint64) uint64 { return b2u(a&m == 0) }
	case "abs":
		return func(a uint64) uint64 {
			if sx(a, w) < 0 {
				return (-a) & m
			}
			return a & m
		}
	case "neg":
		return func(a uint64) uint64 { return (-a) & m }
	}
	return nil
}

// ---------------------------------------------------------------------------
// floats by bit pattern; one implementation for both formats

type ffmt struct {
	w     int  // 32 | 64
	mbits uint // 23 | 52
	bias  int  // 127 | 1023
}

var (
	f32 = ffmt{32, 23, 127}
	f64 = ffmt{64, 52, 1023}
)

func (f ffmt) signBit() uint64 { return 1 << uint(f.w-1) }
func (f ffmt) absMask() uint64 { return f.signBit() - 1 }
func (f ffmt) inf() uint64     { return f.absMask() &^ (1<<f.mbits - 1) }
func (f ffmt) canon() uint64   { return f.inf() | 1<<(f.mbits-1) }
func (f ffmt) isNaN(x uint64) bool {
	return x&f.absMask() > f.inf()
}
func (f ffmt) isCanon(x uint64) bool { return x&f.absMask() == f.canon() }
func (f ffmt) isArith(x uint64) bool { return f.isNaN(x) && x>>(f.mbits-1)&1 == 1 }
func (f ffmt) one() uint64           { return uint64(f.bias) << f.mbits }

// nanClass implements nans_N{z*}: a canonical NaN if every NaN among the inputs
// is canonical (or there is none), otherwise an arithmetic NaN.
func (f ffmt) nanClass(in ...uint64) NaNClass {
	for _, x := range in {
		if f.isNaN(x) && !f.isCanon(x) {
			return Arithmetic
		}
	}
	return Canonical
}

// key maps a non-NaN value to an integer with the same order (-0 == +0).
func (f ffmt) key(x uint64) int64 {
	a := int64(x & f.absMask())
	if x&f.signBit() != 0 {
		return -a
	}
	return a
}

func (f ffmt) cmp(name string, a, b uint64) uint64 {
	a &= mask(f.w)
	b &= mask(f.w)
	if f.isNaN(a) || f.isNaN(b) {
		return b2u(name == "ne")
	}
	ka, kb := f.key(a), f.key(b)
	switch name {
	case "eq":
		return b2u(ka == kb)
	case "ne":
		return b2u(ka != kb)
	case "lt":
		return b2u(ka < kb)
	case "gt":
		return b2u(ka > kb)
	case "le":
		return b2u(ka <= kb)
	case "ge":
		return b2u(ka >= kb)
	}
	panic("cmp " + name)
}

func (f ffmt) min(a, b uint64) (uint64, NaNClass) {
	if f.isNaN(a) || f.isNaN(b) {
		return f.canon(), f.nanClass(a, b)
	}
	ka, kb := f.key(a), f.key(b)
	switch {
	case ka < kb:
		return a, Exact
	case kb < ka:
		return b, Exact
	}
	return a | b, Exact // equal: identical, or zeros of opposite sign -> -0
}

func (f ffmt) max(a, b uint64) (uint64, NaNClass) {
	if f.isNaN(a) || f.isNaN(b) {
		return f.canon(), f.nanClass(a, b)
	}
	ka, kb := f.key(a), f.key(b)
	switch {
	case ka > kb:
		return a, Exact
	case kb > ka:
		return b, Exact
	}
	return a & b, Exact // zeros of opposite sign -> +0
}

// pmin / pmax: b < a ? b : a   and   a < b ? b : a  (bits fully determined).
func (f ffmt) pmin(a, b uint64) uint64 {
	if f.cmp("lt", b, a) == 1 {
		return b
	}
	return a
}
func (f ffmt) pmax(a, b uint64) uint64 {
	if f.cmp("lt", a, b) == 1 {
		return b
	}
	return a
}

const (
	rCeil = iota
	rFloor
	rTrunc
	rNearest
)

func (f ffmt) round(x uint64, mode int) (uint64, NaNClass) {
	if f.isNaN(x) {
		return f.canon(), f.nanClass(x)
	}
	sign := x & f.signBit()
	abs := x & f.absMask()
	e := int(abs>>f.mbits) - f.bias
	if e >= int(f.mbits) || abs == 0 {
		return x, Exact // already integral, infinite or zero
	}
	neg := sign != 0
	if e < 0 { // 0 < |x| < 1
		switch mode {
		case rTrunc:
			return sign, Exact
		case rFloor:
			if neg {
				return sign | f.one(), Exact
			}
			return 0, Exact
		case rCeil:
			if neg {
				return sign, Exact // -0
			}
			return f.one(), Exact
		default:
			half := uint64(f.bias-1) << f.mbits
			if abs > half {
				return sign | f.one(), Exact
			}
			return sign, Exact // |x| <= 0.5 ties to even 0
		}
	}
	sh := f.mbits - uint(e)
	fracMask := uint64(1)<<sh - 1
	frac := abs & fracMask
	if frac == 0 {
		return x, Exact
	}
	down := abs &^ fracMask   // magnitude truncated
	up := down + fracMask + 1 // next integer in magnitude (carry into the exponent is right)
	switch mode {
	case rTrunc:
		return sign | down, Exact
	case rFloor:
		if neg {
			return sign | up, Exact
		}
		return down, Exact
	case rCeil:
		if neg {
			return sign | down, Exact
		}
		return up, Exact
	}
	half := (fracMask + 1) >> 1
	switch {
	case frac > half:
		return sign | up, Exact
	case frac < half:
		return sign | down, Exact
	}
	mant := abs&(1<<f.mbits-1) | 1<<f.mbits
	if mant>>sh&1 == 1 { // integer part odd -> away
		return sign | up, Exact
	}
	return sign | down, Exact
}

// arith does add/sub/mul/div/sqrt with the hardware on the exact type.
func (f ffmt) arith(name string, a, b uint64) (uint64, NaNClass) {
	var r uint64
	var isnan bool
	if f.w == 32 {
		x, y := math.Float32frombits(uint32(a)), math.Float32frombits(uint32(b))
		var z float32
		switch name {
		case "add":
			z = x + y
		case "sub":
			z = x - y
		case "mul":
			z = x * y
		case "div":
			z = x / y
		case "sqrt":
			z = float32(math.Sqrt(float64(x))) // exact: 53 >= 2*24+2
		default:
			panic(name)
		}
		isnan = z != z
		r = uint64(math.Float32bits(z))
	} else {
		x, y := math.Float64frombits(a), math.Float64frombits(b)
		var z float64
		switch name {
		case "add":
			z = x + y
		case "sub":
			z = x - y
		case "mul":
			z = x * y
		case "div":
			z = x / y
		case "sqrt":
			z = math.Sqrt(x)
		default:
			panic(name)
		}
		isnan = z != z
		r = math.Float64bits(z)
	}
	if isnan {
		if name == "sqrt" {
			return f.canon(), f.nanClass(a)
		}
		return f.canon(), f.nanClass(a, b)
	}
	return r, Exact
}

func demote(a uint64) (uint64, NaNClass) {
	if f64.isNaN(a) {
		return f32.canon(), f64.nanClass(a)
	}
	return uint64(math.Float32bits(float32(math.Float64frombits(a)))), Exact
}

func promote(a uint64) (uint64, NaNClass) {
	a &= mask(32)
	if f32.isNaN(a) {
		return f64.canon(), f32.nanClass(a)
	}
	return math.Float64bits(float64(math.Float32frombits(uint32(a)))), Exact
}

// fromInt converts an integer (magnitude, sign) to the format with
// round-to-nearest, ties-to-even, by hand.
func (f ffmt) fromInt(mag uint64, neg bool) uint64 {
	if mag == 0 {
		return 0
	}
	var sign uint64
	if neg {
		sign = f.signBit()
	}
	msb := uint(63 - bits.LeadingZeros64(mag))
	var mant uint64
	if msb <= f.mbits {
		mant = mag << (f.mbits - msb)
	} else {
		sh := msb - f.mbits
		mant = mag >> sh
		rem := mag & (1<<sh - 1)
		half := uint64(1) << (sh - 1)
		if rem > half || (rem == half && mant&1 == 1) {
			mant++
		}
		if mant == 1<<(f.mbits+1) {
			mant >>= 1
			msb++
		}
	}
	return sign | uint64(int(msb)+f.bias)<<f.mbits | mant&(1<<f.mbits-1)
}

func (f ffmt) convertS(x uint64, w int) uint64 {
	s := sx(x, w)
	if s < 0 {
		return f.fromInt(uint64(-s), true) // -MinInt64 wraps to 2^63 as uint64: correct magnitude
	}
	return f.fromInt(uint64(s), false)
}

func (f ffmt) convertU(x uint64, w int) uint64 { return f.fromInt(x&mask(w), false) }

// truncMag returns the magnitude of trunc(x) for a non-NaN x; big = |x| >= 2^64 (incl. inf).
func (f ffmt) truncMag(x uint64) (mag uint64, neg, big bool) {
	neg = x&f.signBit() != 0
	abs := x & f.absMask()
	e := int(abs>>f.mbits) - f.bias
	if e < 0 {
		return 0, neg, false
	}
	if e >= 64 {
		return 0, neg, true
	}
	mant := abs&(1<<f.mbits-1) | 1<<f.mbits
	if uint(e) >= f.mbits {
		return mant << (uint(e) - f.mbits), neg, false
	}
	return mant >> (f.mbits - uint(e)), neg, false
}

// truncTo: float -> integer of width w. sat=false: trapping version.
func (f ffmt) truncTo(x uint64, w int, signed, sat bool) (uint64, Trap) {
	x &= mask(f.w)
	if f.isNaN(x) {
		if sat {
			return 0, NoTrap
		}
		return 0, TrapInvalidConversion
	}
	mag, neg, big := f.truncMag(x)
	var ok bool
	if signed {
		lim := uint64(1) << uint(w-1)
		ok = !big && ((neg && mag <= lim) || (!neg && mag < lim))
	} else {
		ok = !big && ((neg && mag == 0) || (!neg && (w == 64 || mag < 1<<uint(w))))
	}
	if ok {
		if neg {
			return (-mag) & mask(w), NoTrap
		}
		return mag, NoTrap
	}
	if !sat {
		return 0, TrapIntOverflow
	}
	switch {
	case signed && neg:
		return uint64(1) << uint(w-1), NoTrap
	case signed:
		return uint64(1)<<uint(w-1) - 1, NoTrap
	case neg:
		return 0, NoTrap
	}
	return mask(w), NoTrap
}

// ---------------------------------------------------------------------------
// registration

func reg(name string, f evalFn) {
	op := wops.ByName(name)
	if op == nil {
		panic("refsem: no table row " + name)
	}
	if impls[op.Index] != nil {
		panic("refsem: duplicate " + name)
	}
	impls[op.Index] = f
}

func val(x uint64) Result { return Result{V: Val{Lo: x}} }

func fres(x uint64, c NaNClass) Result {
	r := Result{V: Val{Lo: x}}
	r.NaN[0] = c
	return r
}

func fmtOf(w int) ffmt {
	if w == 32 {
		return f32
	}
	return f64
}

func wOf(s string) int {
	if strings.HasSuffix(s, "64") {
		return 64
	}
	return 32
}

func init() {
	impls = make([]evalFn, len(wops.Table))
	regScalar()
	regVector()
	for _, op := range wops.Table {
		if impls[op.Index] == nil {
			panic("refsem: table row without reference semantics: " + op.Name)
		}
	}
}

func regScalar() {
	for _, t := range []string{"i32", "i64"} {
		w := wOf(t)
		for _, n := range []string{"eq", "ne", "lt_s", "lt_u", "gt_s", "gt_u", "le_s", "le_u", "ge_s", "ge_u",
			"add", "sub", "mul", "and", "or", "xor", "shl", "shr_s", "shr_u", "rotl", "rotr"} {
			f := intBinary(n, w)
			reg(t+"."+n, func(_ []byte, a []Val) Result { return val(f(a[0].Lo, a[1].Lo)) })
		}
		for _, n := range []string{"eqz", "clz", "ctz", "popcnt"} {
			f := intUnary(n, w)
			reg(t+"."+n, func(_ []byte, a []Val) Result { return val(f(a[0].Lo)) })
		}
		for n, f := range map[string]func(a, b uint64, w int) (uint64, Trap){"div_s": idivS, "div_u": idivU, "rem_s": iremS, "rem_u": iremU} {
			f := f
			reg(t+"."+n, func(_ []byte, a []Val) Result {
				v, tr := f(a[0].Lo, a[1].Lo, w)
				return Result{V: Val{Lo: v}, Trap: tr}
			})
		}
		for _, from := range []int{8, 16, 32} {
			if from >= w {
				continue
			}
			from := from
			reg(fmt.Sprintf("%s.extend%d_s", t, from), func(_ []byte, a []Val) Result { return val(uint64(sx(a[0].Lo, from)) & mask(w)) })
		}
		// float -> int
		for _, ft := range []string{"f32", "f64"} {
			f := fmtOf(wOf(ft))
			for _, sg := range []string{"s", "u"} {
				signed := sg == "s"
				reg(fmt.Sprintf("%s.trunc_%s_%s", t, ft, sg), func(_ []byte, a []Val) Result {
					v, tr := f.truncTo(a[0].Lo, w, signed, false)
					return Result{V: Val{Lo: v}, Trap: tr}
				})
				reg(fmt.Sprintf("%s.trunc_sat_%s_%s", t, ft, sg), func(_ []byte, a []Val) Result {
					v, _ := f.truncTo(a[0].Lo, w, signed, true)
					return val(v)
				})
			}
		}
	}
	reg("i32.wrap_i64", func(_ []byte, a []Val) Result { return val(a[0].Lo & mask(32)) })
	reg("i64.extend_i32_s", func(_ []byte, a []Val) Result { return val(uint64(sx(a[0].Lo, 32))) })
	reg("i64.extend_i32_u", func(_ []byte, a []Val) Result { return val(a[0].Lo & mask(32)) })
	reg("i32.reinterpret_f32", func(_ []byte, a []Val) Result { return val(a[0].Lo & mask(32)) })
	reg("f32.reinterpret_i32", func(_ []byte, a []Val) Result { return val(a[0].Lo & mask(32)) })
	reg("i64.reinterpret_f64", func(_ []byte, a []Val) Result { return val(a[0].Lo) })
	reg("f64.reinterpret_i64", func(_ []byte, a []Val) Result { return val(a[0].Lo) })
	reg("f32.demote_f64", func(_ []byte, a []Val) Result { return fres(demote(a[0].Lo)) })
	reg("f64.promote_f32", func(_ []byte, a []Val) Result { return fres(promote(a[0].Lo)) })

	for _, t := range []string{"f32", "f64"} {
		w := wOf(t)
		f := fmtOf(w)
		m := mask(w)
		for _, n := range []string{"eq", "ne", "lt", "gt", "le", "ge"} {
			n := n
			reg(t+"."+n, func(_ []byte, a []Val) Result { return val(f.cmp(n, a[0].Lo, a[1].Lo)) })
		}
		reg(t+".abs", func(_ []byte, a []Val) Result { return val(a[0].Lo & f.absMask()) })
		reg(t+".neg", func(_ []byte, a []Val) Result { return val((a[0].Lo ^ f.signBit()) & m) })
		reg(t+".copysign", func(_ []byte, a []Val) Result {
			return val(a[0].Lo&f.absMask() | a[1].Lo&f.signBit())
		})
		for n, mode := range map[string]int{"ceil": rCeil, "floor": rFloor, "trunc": rTrunc, "nearest": rNearest} {
			mode := mode
			reg(t+"."+n, func(_ []byte, a []Val) Result { return fres(f.round(a[0].Lo&m, mode)) })
		}
		reg(t+".sqrt", func(_ []byte, a []Val) Result { return fres(f.arith("sqrt", a[0].Lo&m, 0)) })
		for _, n := range []string{"add", "sub", "mul", "div"} {
			n := n
			reg(t+"."+n, func(_ []byte, a []Val) Result { return fres(f.arith(n, a[0].Lo&m, a[1].Lo&m)) })
		}
		reg(t+".min", func(_ []byte, a []Val) Result { return fres(f.min(a[0].Lo&m, a[1].Lo&m)) })
		reg(t+".max", func(_ []byte, a []Val) Result { return fres(f.max(a[0].Lo&m, a[1].Lo&m)) })
		for _, it := range []string{"i32", "i64"} {
			iw := wOf(it)
			reg(fmt.Sprintf("%s.convert_%s_s", t, it), func(_ []byte, a []Val) Result { return val(f.convertS(a[0].Lo, iw)) })
			reg(fmt.Sprintf("%s.convert_%s_u", t, it), func(_ []byte, a []Val) Result { return val(f.convertU(a[0].Lo, iw)) })
		}
	}
}

// lanewise helpers -----------------------------------------------------------

func map1(w int, a Val, f func(uint64) uint64) Val {
	var r Val
	for i := 0; i < 128/w; i++ {
		r.SetLane(w, i, f(a.Lane(w, i)))
	}
	return r
}

func map2(w int, a, b Val, f func(x, y uint64) uint64) Val {
	var r Val
	for i := 0; i < 128/w; i++ {
		r.SetLane(w, i, f(a.Lane(w, i), b.Lane(w, i)))
	}
	return r
}

func fmap1(w int, a Val, f func(uint64) (uint64, NaNClass)) Result {
	var r Result
	for i := 0; i < 128/w; i++ {
		v, c := f(a.Lane(w, i))
		r.V.SetLane(w, i, v)
		r.NaN[i] = c
	}
	return r
}

func fmap2(w int, a, b Val, f func(x, y uint64) (uint64, NaNClass)) Result {
	var r Result
	for i := 0; i < 128/w; i++ {
		v, c := f(a.Lane(w, i), b.Lane(w, i))
		r.V.SetLane(w, i, v)
		r.NaN[i] = c
	}
	return r
}

func regVector() {
	reg("i8x16.shuffle", func(imm []byte, a []Val) Result {
		x, y := a[0].Bytes(), a[1].Bytes()
		var out [16]byte
		for i := 0; i < 16; i++ {
			k := imm[i]
			if k < 16 {
				out[i] = x[k]
			} else {
				out[i] = y[k-16]
			}
		}
		return Result{V: FromBytes(out[:])}
	})
	reg("i8x16.swizzle", func(_ []byte, a []Val) Result {
		x, s := a[0].Bytes(), a[1].Bytes()
		var out [16]byte
		for i := 0; i < 16; i++ {
			if s[i] < 16 {
				out[i] = x[s[i]]
			}
		}
		return Result{V: FromBytes(out[:])}
	})
	// bitwise
	reg("v128.not", func(_ []byte, a []Val) Result { return Result{V: Val{^a[0].Lo, ^a[0].Hi}} })
	reg("v128.and", func(_ []byte, a []Val) Result { return Result{V: Val{a[0].Lo & a[1].Lo, a[0].Hi & a[1].Hi}} })
	reg("v128.andnot", func(_ []byte, a []Val) Result { return Result{V: Val{a[0].Lo &^ a[1].Lo, a[0].Hi &^ a[1].Hi}} })
	reg("v128.or", func(_ []byte, a []Val) Result { return Result{V: Val{a[0].Lo | a[1].Lo, a[0].Hi | a[1].Hi}} })
	reg("v128.xor", func(_ []byte, a []Val) Result { return Result{V: Val{a[0].Lo ^ a[1].Lo, a[0].Hi ^ a[1].Hi}} })
	reg("v128.bitselect", func(_ []byte, a []Val) Result {
		c := a[2]
		return Result{V: Val{a[0].Lo&c.Lo | a[1].Lo&^c.Lo, a[0].Hi&c.Hi | a[1].Hi&^c.Hi}}
	})
	reg("v128.any_true", func(_ []byte, a []Val) Result { return val(b2u(a[0].Lo|a[0].Hi != 0)) })

	ishapes := []struct {
		n string
		w int
	}{{"i8x16", 8}, {"i16x8", 16}, {"i32x4", 32}, {"i64x2", 64}}
	for si, sh := range ishapes {
		w, n := sh.w, sh.n
		lanes := 128 / w
		reg(n+".splat", func(_ []byte, a []Val) Result {
			var r Val
			for i := 0; i < lanes; i++ {
				r.SetLane(w, i, a[0].Lo)
			}
			return Result{V: r}
		})
		if w <= 16 {
			reg(n+".extract_lane_s", func(imm []byte, a []Val) Result {
				return val(uint64(sx(a[0].Lane(w, int(imm[0])), w)) & mask(32))
			})
			reg(n+".extract_lane_u", func(imm []byte, a []Val) Result { return val(a[0].Lane(w, int(imm[0]))) })
		} else {
			reg(n+".extract_lane", func(imm []byte, a []Val) Result { return val(a[0].Lane(w, int(imm[0]))) })
		}
		reg(n+".replace_lane", func(imm []byte, a []Val) Result {
			r := a[0]
			r.SetLane(w, int(imm[0]), a[1].Lo)
			return Result{V: r}
		})
		cmps := []string{"eq", "ne", "lt_s", "lt_u", "gt_s", "gt_u", "le_s", "le_u", "ge_s", "ge_u"}
		if w == 64 {
			cmps = []string{"eq", "ne", "lt_s", "gt_s", "le_s", "ge_s"}
		}
		for _, c := range cmps {
			f := intBinary(c, w)
			reg(n+"."+c, func(_ []byte, a []Val) Result {
				return Result{V: map2(w, a[0], a[1], func(x, y uint64) uint64 { return -f(x, y) & mask(w) })}
			})
		}
		uns := []string{"abs", "neg"}
		if w == 8 {
			uns = append(uns, "popcnt")
		}
		for _, u := range uns {
			f := intUnary(u, w)
			reg(n+"."+u, func(_ []byte, a []Val) Result { return Result{V: map1(w, a[0], f)} })
		}
		reg(n+".all_true", func(_ []byte, a []Val) Result {
			for i := 0; i < lanes; i++ {
				if a[0].Lane(w, i) == 0 {
					return val(0)
				}
			}
			return val(1)
		})
		reg(n+".bitmask", func(_ []byte, a []Val) Result {
			var m uint64
			for i := 0; i < lanes; i++ {
				if sx(a[0].Lane(w, i), w) < 0 {
					m |= 1 << uint(i)
				}
			}
			return val(m)
		})
		for _, s := range []string{"shl", "shr_s", "shr_u"} {
			f := intBinary(s, w)
			reg(n+"."+s, func(_ []byte, a []Val) Result {
				k := a[1].Lo & mask(32)
				return Result{V: map1(w, a[0], func(x uint64) uint64 { return f(x, k) })}
			})
		}
		bins := []string{"add", "sub"}
		if w <= 16 {
			bins = append(bins, "add_sat_s", "add_sat_u", "sub_sat_s", "sub_sat_u", "avgr_u")
		}
		if w <= 32 {
			bins = append(bins, "min_s", "min_u", "max_s", "max_u")
		}
		if w >= 16 {
			bins = append(bins, "mul")
		}
		if w == 16 {
			bins = append(bins, "q15mulr_sat_s")
		}
		for _, b := range bins {
			f := intBinary(b, w)
			reg(n+"."+b, func(_ []byte, a []Val) Result { return Result{V: map2(w, a[0], a[1], f)} })
		}
		if si == 0 {
			continue
		}
		// ops that widen from the next narrower shape
		from := ishapes[si-1]
		fw, fl := from.w, 128/from.w
		ext := func(x uint64, signed bool) int64 {
			if signed {
				return sx(x, fw)
			}
			return int64(x & mask(fw))
		}
		for _, sg := range []string{"s", "u"} {
			signed := sg == "s"
			for _, half := range []string{"low", "high"} {
				base := 0
				if half == "high" {
					base = fl / 2
				}
				reg(fmt.Sprintf("%s.extend_%s_%s_%s", n, half, from.n, sg), func(_ []byte, a []Val) Result {
					var r Val
					for i := 0; i < lanes; i++ {
						r.SetLane(w, i, uint64(ext(a[0].Lane(fw, base+i), signed)))
					}
					return Result{V: r}
				})
				reg(fmt.Sprintf("%s.extmul_%s_%s_%s", n, half, from.n, sg), func(_ []byte, a []Val) Result {
					var r Val
					for i := 0; i < lanes; i++ {
						r.SetLane(w, i, uint64(ext(a[0].Lane(fw, base+i), signed)*ext(a[1].Lane(fw, base+i), signed)))
					}
					return Result{V: r}
				})
			}
			if w <= 32 {
				reg(fmt.Sprintf("%s.extadd_pairwise_%s_%s", n, from.n, sg), func(_ []byte, a []Val) Result {
					var r Val
					for i := 0; i < lanes; i++ {
						r.SetLane(w, i, uint64(ext(a[0].Lane(fw, 2*i), signed)+ext(a[0].Lane(fw, 2*i+1), signed)))
					}
					return Result{V: r}
				})
			}
		}
	}
	// narrow: source lanes are always read as signed
	for _, d := range []struct {
		n, from string
		w       int
	}{{"i8x16", "i16x8", 8}, {"i16x8", "i32x4", 16}} {
		w := d.w
		for _, sg := range []string{"s", "u"} {
			signed := sg == "s"
			reg(fmt.Sprintf("%s.narrow_%s_%s", d.n, d.from, sg), func(_ []byte, a []Val) Result {
				var r Val
				half := 128 / (2 * w)
				for i := 0; i < 2*half; i++ {
					src := a[0]
					j := i
					if i >= half {
						src, j = a[1], i-half
					}
					x := sx(src.Lane(2*w, j), 2*w)
					if signed {
						r.SetLane(w, i, satS(x, w))
					} else {
						r.SetLane(w, i, satU(x, w))
					}
				}
				return Result{V: r}
			})
		}
	}
	reg("i32x4.dot_i16x8_s", func(_ []byte, a []Val) Result {
		var r Val
		for i := 0; i < 4; i++ {
			p := sx(a[0].Lane(16, 2*i), 16)*sx(a[1].Lane(16, 2*i), 16) + sx(a[0].Lane(16, 2*i+1), 16)*sx(a[1].Lane(16, 2*i+1), 16)
			r.SetLane(32, i, uint64(p))
		}
		return Result{V: r}
	})

	// float vectors
	for _, sh := range []struct {
		n, cmpRes string
		w         int
	}{{"f32x4", "i32x4", 32}, {"f64x2", "i64x2", 64}} {
		w, n := sh.w, sh.n
		f := fmtOf(w)
		lanes := 128 / w
		reg(n+".splat", func(_ []byte, a []Val) Result {
			var r Val
			for i := 0; i < lanes; i++ {
				r.SetLane(w, i, a[0].Lo)
			}
			return Result{V: r}
		})
		reg(n+".extract_lane", func(imm []byte, a []Val) Result { return val(a[0].Lane(w, int(imm[0]))) })
		reg(n+".replace_lane", func(imm []byte, a []Val) Result {
			r := a[0]
			r.SetLane(w, int(imm[0]), a[1].Lo)
			return Result{V: r}
		})
		for _, c := range []string{"eq", "ne", "lt", "gt", "le", "ge"} {
			c := c
			reg(n+"."+c, func(_ []byte, a []Val) Result {
				return Result{V: map2(w, a[0], a[1], func(x, y uint64) uint64 { return -f.cmp(c, x, y) & mask(w) })}
			})
		}
		reg(n+".abs", func(_ []byte, a []Val) Result {
			return Result{V: map1(w, a[0], func(x uint64) uint64 { return x & f.absMask() })}
		})
		reg(n+".neg", func(_ []byte, a []Val) Result {
			return Result{V: map1(w, a[0], func(x uint64) uint64 { return x ^ f.signBit() })}
		})
		for rn, mode := range map[string]int{"ceil": rCeil, "floor": rFloor, "trunc": rTrunc, "nearest": rNearest} {
			mode := mode
			reg(n+"."+rn, func(_ []byte, a []Val) Result {
				return fmap1(w, a[0], func(x uint64) (uint64, NaNClass) { return f.round(x, mode) })
			})
		}
		reg(n+".sqrt", func(_ []byte, a []Val) Result {
			return fmap1(w, a[0], func(x uint64) (uint64, NaNClass) { return f.arith("sqrt", x, 0) })
		})
		for _, b := range []string{"add", "sub", "mul", "div"} {
			b := b
			reg(n+"."+b, func(_ []byte, a []Val) Result {
				return fmap2(w, a[0], a[1], func(x, y uint64) (uint64, NaNClass) { return f.arith(b, x, y) })
			})
		}
		reg(n+".min", func(_ []byte, a []Val) Result { return fmap2(w, a[0], a[1], f.min) })
		reg(n+".max", func(_ []byte, a []Val) Result { return fmap2(w, a[0], a[1], f.max) })
		reg(n+".pmin", func(_ []byte, a []Val) Result { return Result{V: map2(w, a[0], a[1], f.pmin)} })
		reg(n+".pmax", func(_ []byte, a []Val) Result { return Result{V: map2(w, a[0], a[1], f.pmax)} })
	}
	for _, sg := range []string{"s", "u"} {
		signed := sg == "s"
		reg("i32x4.trunc_sat_f32x4_"+sg, func(_ []byte, a []Val) Result {
			return Result{V: map1(32, a[0], func(x uint64) uint64 { v, _ := f32.truncTo(x, 32, signed, true); return v })}
		})
		reg("i32x4.trunc_sat_f64x2_"+sg+"_zero", func(_ []byte, a []Val) Result {
			var r Val
			for i := 0; i < 2; i++ {
				v, _ := f64.truncTo(a[0].Lane(64, i), 32, signed, true)
				r.SetLane(32, i, v)
			}
			return Result{V: r}
		})
		conv := func(f ffmt, x uint64) uint64 {
			if signed {
				return f.convertS(x, 32)
			}
			return f.convertU(x, 32)
		}
		reg("f32x4.convert_i32x4_"+sg, func(_ []byte, a []Val) Result {
			return Result{V: map1(32, a[0], func(x uint64) uint64 { return conv(f32, x) })}
		})
		reg("f64x2.convert_low_i32x4_"+sg, func(_ []byte, a []Val) Result {
			var r Val
			for i := 0; i < 2; i++ {
				r.SetLane(64, i, conv(f64, a[0].Lane(32, i)))
			}
			return Result{V: r}
		})
	}
	reg("f32x4.demote_f64x2_zero", func(_ []byte, a []Val) Result {
		var r Result
		for i := 0; i < 2; i++ {
			v, c := demote(a[0].Lane(64, i))
			r.V.SetLane(32, i, v)
			r.NaN[i] = c
		}
		return r
	})
	reg("f64x2.promote_low_f32x4", func(_ []byte, a []Val) Result {
		var r Result
		for i := 0; i < 2; i++ {
			v, c := promote(a[0].Lane(32, i))
			r.V.SetLane(64, i, v)
			r.NaN[i] = c
		}
		return r
	})
}

// Scalar helpers exported for other drivers ---------------------------------

// IsNaN32 / IsNaN64 and canonical/arithmetic predicates on bit patterns.
func IsNaN32(b uint32) bool      { return f32.isNaN(uint64(b)) }
func IsNaN64(b uint64) bool      { return f64.isNaN(b) }
func IsCanonNaN32(b uint32) bool { return f32.isCanon(uint64(b)) }
func IsCanonNaN64(b uint64) bool { return f64.isCanon(b) }
func IsArithNaN32(b uint32) bool { return f32.isArith(uint64(b)) }
func IsArithNaN64(b uint64) bool { return f64.isArith(b) }
