package refsem

import (
	"encoding/json"
	"fmt"
	"os"
	"path/filepath"
	"sort"
	"strconv"
	"strings"
	"testing"

	"github.com/tetratelabs/wazero/verifharness/wops"
)

// The spec test corpus in the wazero repo (wast2json output) contains many
// exported functions that are single-instruction wrappers:
//   (func (param ...) (result ...) local.get 0 .. local.get n-1  <op>  end)
// They are found mechanically by decoding the function body in the .wasm file
// (not by name), and every assert_return / assert_trap on them is a test vector
// (op, immediates, operands, expected) for refsem.

const specRoot = "/repo/internal/integration_test/spectest"

type wasmMod struct {
	types    [][2][]byte // params, results
	funcType []uint32    // for defined funcs
	nImpFunc int
	exports  map[string]uint32
	bodies   [][]byte
}

type rd struct {
	b []byte
	p int
}

func (r *rd) u32() uint32 {
	var v uint32
	var s uint
	for {
		c := r.b[r.p]
		r.p++
		v |= uint32(c&0x7f) << s
		if c&0x80 == 0 {
			return v
		}
		s += 7
	}
}
func (r *rd) byte() byte { c := r.b[r.p]; r.p++; return c }
func (r *rd) bytes(n int) []byte {
	x := r.b[r.p : r.p+n]
	r.p += n
	return x
}
func (r *rd) name() string { return string(r.bytes(int(r.u32()))) }
func (r *rd) limits() {
	f := r.byte()
	r.u32()
	if f&1 != 0 {
		r.u32()
	}
}

func parseWasm(b []byte) (m *wasmMod, err error) {
	defer func() {
		if e := recover(); e != nil {
			err = fmt.Errorf("parse: %v", e)
		}
	}()
	m = &wasmMod{exports: map[string]uint32{}}
	r := &rd{b: b, p: 8}
	for r.p < len(b) {
		id := r.byte()
		size := int(r.u32())
		s := &rd{b: b[r.p : r.p+size]}
		r.p += size
		switch id {
		case 1:
			n := int(s.u32())
			for i := 0; i < n; i++ {
				s.byte()
				p := append([]byte(nil), s.bytes(int(s.u32()))...)
				q := append([]byte(nil), s.bytes(int(s.u32()))...)
				m.types = append(m.types, [2][]byte{p, q})
			}
		case 2:
			n := int(s.u32())
			for i := 0; i < n; i++ {
				s.name()
				s.name()
				switch s.byte() {
				case 0:
					s.u32()
					m.nImpFunc++
				case 1:
					s.byte()
					s.limits()
				case 2:
					s.limits()
				case 3:
					s.byte()
					s.byte()
				}
			}
		case 3:
			n := int(s.u32())
			for i := 0; i < n; i++ {
				m.funcType = append(m.funcType, s.u32())
			}
		case 7:
			n := int(s.u32())
			for i := 0; i < n; i++ {
				nm := s.name()
				k := s.byte()
				idx := s.u32()
				if k == 0 {
					m.exports[nm] = idx
				}
			}
		case 10:
			n := int(s.u32())
			for i := 0; i < n; i++ {
				sz := int(s.u32())
				m.bodies = append(m.bodies, s.bytes(sz))
			}
		}
	}
	return m, nil
}

type wrapper struct {
	op  *wops.Op
	imm []byte
}

// singleOp recognises the wrapper pattern.
func (m *wasmMod) singleOp(export string) *wrapper {
	idx, ok := m.exports[export]
	if !ok || int(idx) < m.nImpFunc {
		return nil
	}
	di := int(idx) - m.nImpFunc
	if di >= len(m.bodies) || di >= len(m.funcType) {
		return nil
	}
	ft := m.types[m.funcType[di]]
	body := m.bodies[di]
	var w *wrapper
	func() {
		defer func() { recover() }()
		r := &rd{b: body}
		if r.u32() != 0 { // no locals
			return
		}
		n := 0
		for r.b[r.p] == 0x20 {
			r.p++
			if int(r.u32()) != n {
				return
			}
			n++
		}
		var op *wops.Op
		c := r.byte()
		if c == 0xfc || c == 0xfd {
			op = wops.Lookup(c, r.u32())
		} else {
			op = wops.Lookup(0, uint32(c))
		}
		if op == nil || len(op.Params) != n {
			return
		}
		imm := append([]byte(nil), r.bytes(op.ImmLen())...)
		if r.byte() != 0x0b || r.p != len(body) {
			return
		}
		// signature must be the op's
		if string(ft[0]) != string(op.ParamTypes()) || string(ft[1]) != string(op.ResultTypes()) {
			return
		}
		w = &wrapper{op, imm}
	}()
	return w
}

type jval struct {
	Type     string          `json:"type"`
	LaneType string          `json:"lane_type"`
	Value    json.RawMessage `json:"value"`
}

type jcmd struct {
	Type     string `json:"type"`
	Line     int    `json:"line"`
	Filename string `json:"filename"`
	Text     string `json:"text"`
	Action   struct {
		Type   string `json:"type"`
		Module string `json:"module"`
		Field  string `json:"field"`
		Args   []jval `json:"args"`
	} `json:"action"`
	Expected []jval `json:"expected"`
}

func laneBits(t string) int {
	switch t {
	case "i8":
		return 8
	case "i16":
		return 16
	case "i32", "f32":
		return 32
	}
	return 64
}

// parse one value; classes per lane (width of lanes returned).
func parseJVal(v jval) (Val, [16]NaNClass, int, error) {
	var out Val
	var cls [16]NaNClass
	one := func(s string, w int) (uint64, NaNClass, error) {
		switch s {
		case "nan:canonical":
			return 0, Canonical, nil
		case "nan:arithmetic":
			return 0, Arithmetic, nil
		}
		u, err := strconv.ParseUint(s, 10, 64)
		if err != nil {
			i, err2 := strconv.ParseInt(s, 10, 64)
			if err2 != nil {
				return 0, 0, err
			}
			u = uint64(i)
		}
		return u & mask(w), Exact, nil
	}
	if v.Type == "v128" {
		var ss []string
		if err := json.Unmarshal(v.Value, &ss); err != nil {
			return out, cls, 0, err
		}
		w := laneBits(v.LaneType)
		for i, s := range ss {
			u, c, err := one(s, w)
			if err != nil {
				return out, cls, 0, err
			}
			out.SetLane(w, i, u)
			cls[i] = c
		}
		return out, cls, w, nil
	}
	var s string
	if err := json.Unmarshal(v.Value, &s); err != nil {
		return out, cls, 0, err
	}
	w := laneBits(v.Type)
	u, c, err := one(s, w)
	out.Lo = u
	cls[0] = c
	return out, cls, w, err
}

func TestSpecVectors(t *testing.T) {
	var files []string
	for _, d := range []string{"v1", "v2"} {
		fs, _ := filepath.Glob(filepath.Join(specRoot, d, "testdata", "*.json"))
		files = append(files, fs...)
	}
	if len(files) == 0 {
		t.Skip("no spec corpus")
	}
	perOp := map[string]int{}
	total, traps, nanVectors, weak, fails := 0, 0, 0, 0, 0
	for _, jf := range files {
		raw, err := os.ReadFile(jf)
		if err != nil {
			t.Fatal(err)
		}
		var doc struct {
			Commands []jcmd `json:"commands"`
		}
		if err := json.Unmarshal(raw, &doc); err != nil {
			t.Fatalf("%s: %v", jf, err)
		}
		var cur *wasmMod
		wrappers := map[string]*wrapper{}
		for _, c := range doc.Commands {
			switch c.Type {
			case "module":
				cur = nil
				wrappers = map[string]*wrapper{}
				b, err := os.ReadFile(filepath.Join(filepath.Dir(jf), c.Filename))
				if err == nil {
					cur, _ = parseWasm(b)
				}
				continue
			case "assert_return", "assert_trap":
			default:
				continue
			}
			if cur == nil || c.Action.Type != "invoke" || c.Action.Module != "" {
				continue
			}
			w, seen := wrappers[c.Action.Field]
			if !seen {
				w = cur.singleOp(c.Action.Field)
				wrappers[c.Action.Field] = w
			}
			if w == nil || len(c.Action.Args) != len(w.op.Params) {
				continue
			}
			args := make([]Val, len(c.Action.Args))
			bad := false
			for i, a := range c.Action.Args {
				v, cls, _, err := parseJVal(a)
				if err != nil || cls != [16]NaNClass{} {
					bad = true
				}
				args[i] = v
			}
			if bad {
				continue
			}
			res := Eval(w.op, w.imm, args)
			where := fmt.Sprintf("%s:%d %s%v(%v)", filepath.Base(jf), c.Line, w.op.Name, w.imm, args)
			total++
			perOp[w.op.Name]++
			if c.Type == "assert_trap" {
				traps++
				if res.Trap == NoTrap || res.Trap.String() != c.Text {
					fails++
					t.Errorf("%s: want trap %q, refsem %v", where, c.Text, res)
				}
				continue
			}
			if res.Trap != NoTrap {
				fails++
				t.Errorf("%s: refsem traps (%v), spec returns", where, res.Trap)
				continue
			}
			if len(c.Expected) != 1 {
				continue
			}
			exp, cls, ew, err := parseJVal(c.Expected[0])
			if err != nil {
				t.Errorf("%s: bad expected: %v", where, err)
				continue
			}
			if cls == [16]NaNClass{} {
				if !res.Deterministic() {
					// spec gives bits where refsem gives a class: the bits must at least be in the class
					weak++
					if !res.Accepts(exp) {
						fails++
						t.Errorf("%s: want %v, refsem %v", where, exp, res)
					}
					continue
				}
				if !res.Accepts(exp) {
					fails++
					t.Errorf("%s: want %v, refsem %v", where, exp, res)
				}
				continue
			}
			nanVectors++
			if ew != w.op.Result.LaneBits() {
				fails++
				t.Errorf("%s: NaN expectation with lane width %d on %s result", where, ew, w.op.Result)
				continue
			}
			for i := 0; i < w.op.Result.Lanes(); i++ {
				if cls[i] != res.NaN[i] {
					fails++
					t.Errorf("%s: lane %d: spec says %v, refsem %v", where, i, cls[i], res)
					break
				}
				if cls[i] == Exact && exp.Lane(ew, i) != res.V.Lane(ew, i) {
					fails++
					t.Errorf("%s: lane %d: want %x, refsem %v", where, i, exp.Lane(ew, i), res)
					break
				}
			}
			if fails > 50 {
				t.Fatalf("too many failures")
			}
		}
	}
	var missing []string
	for _, op := range wops.Table {
		if perOp[op.Name] == 0 {
			missing = append(missing, op.Name)
		}
	}
	sort.Strings(missing)
	t.Logf("spec vectors checked: %d (assert_trap %d, with NaN-class expectations %d, class-vs-bits %d) over %d of %d ops; failures %d",
		total, traps, nanVectors, weak, len(perOp), len(wops.Table), fails)
	t.Logf("ops without a mechanically mapped spec vector: %s", strings.Join(missing, " "))
	if total < 10000 {
		t.Errorf("only %d vectors found", total)
	}
}
