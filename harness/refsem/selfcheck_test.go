package refsem

import (
	"math"
	"math/big"
	"testing"

	"github.com/tetratelabs/wazero/verifharness/core"
)

// Cross-check the hand-written bit-case code against Go's math package and
// math/big (neither is wazero code) on edge + random inputs.
func TestRoundingAgainstGoMath(t *testing.T) {
	r := core.NewRng(1, 500)
	modes := map[int]func(float64) float64{rCeil: math.Ceil, rFloor: math.Floor, rTrunc: math.Trunc, rNearest: math.RoundToEven}
	for i := 0; i < 2000000; i++ {
		b64 := r.F64()
		b32 := r.F32()
		if i%3 == 0 { // values around integers and halves
			b64 = math.Float64bits(float64(int64(r.U64()>>uint(r.Intn(64)))) / 2)
			b32 = math.Float32bits(float32(int32(r.U32()>>uint(r.Intn(32)))) / 2)
		}
		for m, g := range modes {
			if !f64.isNaN(b64) {
				got, _ := f64.round(b64, m)
				if want := math.Float64bits(g(math.Float64frombits(b64))); got != want {
					t.Fatalf("f64 round mode %d of %016x: %016x want %016x", m, b64, got, want)
				}
			}
			if !f32.isNaN(uint64(b32)) {
				got, _ := f32.round(uint64(b32), m)
				if want := math.Float32bits(float32(g(float64(math.Float32frombits(b32))))); uint32(got) != want {
					t.Fatalf("f32 round mode %d of %08x: %08x want %08x", m, b32, got, want)
				}
			}
		}
	}
}

func TestIntToFloatAgainstGo(t *testing.T) {
	r := core.NewRng(1, 501)
	for i := 0; i < 3000000; i++ {
		x := r.I64()
		if i%2 == 0 {
			x = r.U64() >> uint(r.Intn(64))
			if r.Bool() {
				x = -x
			}
		}
		chk := func(name string, got uint64, want uint64) {
			if got != want {
				t.Fatalf("%s of %016x: %x want %x", name, x, got, want)
			}
		}
		chk("f64.convert_i64_s", f64.convertS(x, 64), math.Float64bits(float64(int64(x))))
		chk("f64.convert_i64_u", f64.convertU(x, 64), math.Float64bits(float64(x)))
		chk("f64.convert_i32_s", f64.convertS(x, 32), math.Float64bits(float64(int32(x))))
		chk("f64.convert_i32_u", f64.convertU(x, 32), math.Float64bits(float64(uint32(x))))
		chk("f32.convert_i32_s", f32.convertS(x, 32), uint64(math.Float32bits(float32(int32(x)))))
		chk("f32.convert_i32_u", f32.convertU(x, 32), uint64(math.Float32bits(float32(uint32(x)))))
		// 64 -> f32 through big.Float (exact single rounding)
		bf := new(big.Float).SetPrec(24).SetMode(big.ToNearestEven).SetInt64(int64(x))
		w, _ := bf.Float32()
		chk("f32.convert_i64_s", f32.convertS(x, 64), uint64(math.Float32bits(w)))
		bu := new(big.Float).SetPrec(24).SetMode(big.ToNearestEven).SetUint64(x)
		w, _ = bu.Float32()
		chk("f32.convert_i64_u", f32.convertU(x, 64), uint64(math.Float32bits(w)))
	}
}

func TestTruncAgainstBig(t *testing.T) {
	r := core.NewRng(1, 502)
	for i := 0; i < 1000000; i++ {
		b := r.F64()
		if i%4 == 0 {
			b = uint64(r.F32())
			b = math.Float64bits(float64(math.Float32frombits(uint32(b))))
		}
		if i%4 == 1 { // near powers of two
			b = math.Float64bits(math.Ldexp(1, r.Intn(70))) + uint64(r.Intn(5)) - 2
			if r.Bool() {
				b |= 1 << 63
			}
		}
		x := math.Float64frombits(b)
		for _, w := range []int{32, 64} {
			for _, signed := range []bool{true, false} {
				got, tr := f64.truncTo(b, w, signed, false)
				sat, _ := f64.truncTo(b, w, signed, true)
				if x != x {
					if tr != TrapInvalidConversion || sat != 0 {
						t.Fatalf("nan: %v %x", tr, sat)
					}
					continue
				}
				lo, hi := new(big.Int), new(big.Int)
				if signed {
					lo.Neg(new(big.Int).Lsh(big.NewInt(1), uint(w-1)))
					hi.Sub(new(big.Int).Lsh(big.NewInt(1), uint(w-1)), big.NewInt(1))
				} else {
					hi.Sub(new(big.Int).Lsh(big.NewInt(1), uint(w)), big.NewInt(1))
				}
				var z *big.Int
				if math.IsInf(x, 0) {
					z = new(big.Int).Lsh(big.NewInt(1), 100)
					if x < 0 {
						z.Neg(z)
					}
				} else {
					z, _ = new(big.Float).SetFloat64(x).Int(nil) // truncates toward zero
				}
				inRange := z.Cmp(lo) >= 0 && z.Cmp(hi) <= 0
				if inRange != (tr == NoTrap) {
					t.Fatalf("trunc w=%d signed=%v of %016x (%g): trap %v, in range %v", w, signed, b, x, tr, inRange)
				}
				want := z
				if !inRange {
					if z.Sign() < 0 {
						want = lo
					} else {
						want = hi
					}
				} else if got != new(big.Int).And(z, new(big.Int).SetUint64(mask(w))).Uint64() {
					t.Fatalf("trunc w=%d signed=%v of %016x: got %x want %v", w, signed, b, got, z)
				}
				if sat != new(big.Int).And(want, new(big.Int).SetUint64(mask(w))).Uint64() {
					t.Fatalf("trunc_sat w=%d signed=%v of %016x: got %x want %v", w, signed, b, sat, want)
				}
			}
		}
	}
}

func TestMinMaxCompareAgainstGo(t *testing.T) {
	r := core.NewRng(1, 503)
	for i := 0; i < 2000000; i++ {
		a, b := r.F64(), r.F64()
		x, y := math.Float64frombits(a), math.Float64frombits(b)
		if x == x && y == y {
			mn, _ := f64.min(a, b)
			mx, _ := f64.max(a, b)
			if mn != math.Float64bits(math.Min(x, y)) || mx != math.Float64bits(math.Max(x, y)) {
				t.Fatalf("min/max %016x %016x: %016x %016x", a, b, mn, mx)
			}
		}
		for n, want := range map[string]bool{"eq": x == y, "ne": x != y, "lt": x < y, "gt": x > y, "le": x <= y, "ge": x >= y} {
			if f64.cmp(n, a, b) != b2u(want) {
				t.Fatalf("cmp %s %016x %016x", n, a, b)
			}
		}
	}
}
