package main

import (
	"fmt"
	"os"

	"github.com/tetratelabs/wazero/verifharness/wdis"
)

func main() {
	b, err := os.ReadFile(os.Args[1])
	if err != nil {
		panic(err)
	}
	fmt.Print(wdis.Module(b))
}
