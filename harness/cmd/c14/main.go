package main

import (
	"github.com/tetratelabs/wazero/verifharness/core"
	"github.com/tetratelabs/wazero/verifharness/props/c14"
)

func main() { core.Main(c14.Prop) }
