package main

import (
	"github.com/tetratelabs/wazero/verifharness/core"
	"github.com/tetratelabs/wazero/verifharness/props/c07"
)

func main() { core.Main(c07.Prop) }
