package main

import (
	"github.com/tetratelabs/wazero/verifharness/core"
	"github.com/tetratelabs/wazero/verifharness/props/c02"
)

func main() { core.Main(c02.Prop) }
