package main

import (
	"github.com/tetratelabs/wazero/verifharness/core"
	"github.com/tetratelabs/wazero/verifharness/props/c13"
)

func main() { core.Main(c13.Prop) }
