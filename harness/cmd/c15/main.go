package main

import (
	"github.com/tetratelabs/wazero/verifharness/core"
	"github.com/tetratelabs/wazero/verifharness/props/c15"
)

func main() { core.Main(c15.Prop) }
