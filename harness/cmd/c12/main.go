package main

import (
	"github.com/tetratelabs/wazero/verifharness/core"
	"github.com/tetratelabs/wazero/verifharness/props/c12"
)

func main() { core.Main(c12.Prop) }
