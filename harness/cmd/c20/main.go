package main

import (
	"github.com/tetratelabs/wazero/verifharness/core"
	"github.com/tetratelabs/wazero/verifharness/props/c20"
)

func main() { core.Main(c20.Prop) }
