package main

import (
	"github.com/tetratelabs/wazero/verifharness/core"
	"github.com/tetratelabs/wazero/verifharness/props/c03"
)

func main() { core.Main(c03.Prop) }
