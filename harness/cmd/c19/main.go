package main

import (
	"github.com/tetratelabs/wazero/verifharness/core"
	"github.com/tetratelabs/wazero/verifharness/props/c19"
)

func main() { core.Main(c19.Prop) }
