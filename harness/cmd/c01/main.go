package main

import (
	"github.com/tetratelabs/wazero/verifharness/core"
	"github.com/tetratelabs/wazero/verifharness/props/c01"
)

func main() { core.Main(c01.Prop) }
