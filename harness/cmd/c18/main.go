package main

import (
	"github.com/tetratelabs/wazero/verifharness/core"
	"github.com/tetratelabs/wazero/verifharness/props/c18"
)

func main() { core.Main(c18.Prop) }
