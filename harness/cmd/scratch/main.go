package main

import (
	"context"
	"fmt"

	"github.com/tetratelabs/wazero"
	"github.com/tetratelabs/wazero/verifharness/wenc"
)

func run(name string, bin []byte) {
	for _, comp := range []bool{false, true} {
		ctx := context.Background()
		rc := wazero.NewRuntimeConfigInterpreter()
		if comp {
			rc = wazero.NewRuntimeConfigCompiler()
		}
		rt := wazero.NewRuntimeWithConfig(ctx, rc)
		mod, err := rt.Instantiate(ctx, bin)
		if err != nil {
			fmt.Println(name, comp, "inst err", err)
			continue
		}
		res, err := mod.ExportedFunction("f").Call(ctx, 29)
		b, _ := mod.Memory().Read(32, 16)
		fmt.Printf("%s compiler=%v res=%x err=%v mem=%x\n", name, comp, res, err, b)
		rt.Close(ctx)
	}
}

func main() {
	V := wenc.V128
	for variant := 0; variant < 4; variant++ {
		m := &wenc.Module{}
		m.Mems = []wenc.Limits{{Min: 1}}
		m.Exports = append(m.Exports, wenc.Export{Name: "memory", Kind: wenc.ExtMemory})
		m.Globals = []wenc.Global{{Type: wenc.GlobalType{Type: V}, Init: wenc.ConstV128(0x1111222233334444, 0x5555666677778888)}}
		c := &wenc.Code{}
		c.LocalGet(0).I32Const(0x7fff).Op(0x71)
		if variant == 1 {
			c.I32Const(0)
		} else {
			c.F64Const(0x8000000000000000).Op(0xfc, 2)
		}
		c.If(V).LocalGet(1).Else().LocalGet(1).GlobalGet(0).LocalGet(3).Select().End()
		if variant == 2 {
			c.Raw([]byte{0xfd, 0x0b}).U32(0).U32(3)
		} else if variant == 3 {
			c.Raw([]byte{0xfd, 0x59}).U32(1).U32(3).Op(1)
		} else {
			c.Raw([]byte{0xfd, 0x59}).U32(1).U32(3).Op(0)
		}
		c.End()
		m.ExportFunc("f", m.AddFunc([]wenc.ValType{wenc.I32}, nil, []wenc.ValType{V, wenc.I32, wenc.I32}, c.B))
		run(fmt.Sprint("variant", variant), m.Encode())
	}
}
