package main

import (
	"context"
	"fmt"

	"github.com/tetratelabs/wazero"
	"github.com/tetratelabs/wazero/verifharness/wenc"
)

func main() {
	for _, comp := range []bool{false, true} {
		ctx := context.Background()
		cache := wazero.NewCompilationCache()
		mk := func() wazero.Runtime {
			rc := wazero.NewRuntimeConfigInterpreter()
			if comp {
				rc = wazero.NewRuntimeConfigCompiler()
			}
			return wazero.NewRuntimeWithConfig(ctx, rc.WithCompilationCache(cache))
		}
		m := &wenc.Module{}
		m.ExportFunc("f", m.AddFunc(nil, []wenc.ValType{wenc.I32}, nil, (&wenc.Code{}).I32Const(42).End().B))
		bin := m.Encode()
		rA, rB := mk(), mk()
		cmB, err := rB.CompileModule(ctx, bin)
		fmt.Println("B compile", err)
		cmA, err := rA.CompileModule(ctx, bin)
		fmt.Println("A compile", err)
		cmA.Close(ctx)
		modB, err := rB.InstantiateModule(ctx, cmB, wazero.NewModuleConfig())
		fmt.Println("compiler", comp, "B instantiate:", err)
		if err == nil {
			fmt.Println(modB.ExportedFunction("f").Call(ctx))
		}
	}
}
