package main

import (
	"github.com/tetratelabs/wazero/verifharness/core"
	"github.com/tetratelabs/wazero/verifharness/props/c04"
)

func main() { core.Main(c04.Prop) }
