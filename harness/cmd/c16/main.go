package main

import (
	"github.com/tetratelabs/wazero/verifharness/core"
	"github.com/tetratelabs/wazero/verifharness/props/c16"
)

func main() { core.Main(c16.Prop) }
