package main

import (
	"github.com/tetratelabs/wazero/verifharness/core"
	"github.com/tetratelabs/wazero/verifharness/props/c17"
)

func main() { core.Main(c17.Prop) }
