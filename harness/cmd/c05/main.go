package main

import (
	"github.com/tetratelabs/wazero/verifharness/core"
	"github.com/tetratelabs/wazero/verifharness/props/c05"
)

func main() { core.Main(c05.Prop) }
