package main

import (
	"github.com/tetratelabs/wazero/verifharness/core"
	"github.com/tetratelabs/wazero/verifharness/props/c08"
)

func main() { core.Main(c08.Prop) }
