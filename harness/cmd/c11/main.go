package main

import (
	"github.com/tetratelabs/wazero/verifharness/core"
	"github.com/tetratelabs/wazero/verifharness/props/c11"
)

func main() { core.Main(c11.Prop) }
