package main

import (
	"github.com/tetratelabs/wazero/verifharness/core"
	"github.com/tetratelabs/wazero/verifharness/props/c10"
)

func main() { core.Main(c10.Prop) }
