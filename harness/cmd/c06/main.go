package main

import (
	"github.com/tetratelabs/wazero/verifharness/core"
	"github.com/tetratelabs/wazero/verifharness/props/c06"
)

func main() { core.Main(c06.Prop) }
