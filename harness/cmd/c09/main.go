package main

import (
	"github.com/tetratelabs/wazero/verifharness/core"
	"github.com/tetratelabs/wazero/verifharness/props/c09"
)

func main() { core.Main(c09.Prop) }
