// Package wops is the single hand-written table of the WebAssembly 2.0 numeric
// instructions (DESIGN.md Appendix D): every scalar test/compare/unary/binary/
// conversion/reinterpret instruction 0x45..0xC4, the eight saturating
// truncations 0xFC 0..7 and every non-memory, non-const v128 instruction of the
// SIMD proposal (0xFD ...). Each row carries name, encoding, immediates,
// operand/result shapes, class, may-trap and NaN rule. The table is written from
// the specification; wops_test.go cross-checks every row against wazero's own
// opcode constants and names.
package wops

import (
	"fmt"
	"strconv"
	"strings"

	"github.com/tetratelabs/wazero/verifharness/wenc"
)

// Shape says how an operand/result is interpreted (value type plus lane view).
type Shape uint8

const (
	I32 Shape = iota
	I64
	F32
	F64
	I8x16
	I16x8
	I32x4
	I64x2
	F32x4
	F64x2
	V128 // 128 bits without lane structure (bitwise ops, shuffle immediates aside)
)

var shapeNames = [...]string{"i32", "i64", "f32", "f64", "i8x16", "i16x8", "i32x4", "i64x2", "f32x4", "f64x2", "v128"}

func (s Shape) String() string { return shapeNames[s] }

// ValType is the wasm value type of the shape.
func (s Shape) ValType() wenc.ValType {
	switch s {
	case I32:
		return wenc.I32
	case I64:
		return wenc.I64
	case F32:
		return wenc.F32
	case F64:
		return wenc.F64
	}
	return wenc.V128
}

func (s Shape) IsVector() bool { return s >= I8x16 }

// IsFloat: the (lanes of the) shape are IEEE floats.
func (s Shape) IsFloat() bool { return s == F32 || s == F64 || s == F32x4 || s == F64x2 }

// LaneBits is the width of one lane (of the scalar itself for scalars; 128 for V128).
func (s Shape) LaneBits() int {
	switch s {
	case I8x16:
		return 8
	case I16x8:
		return 16
	case I32, F32, I32x4, F32x4:
		return 32
	case I64, F64, I64x2, F64x2:
		return 64
	}
	return 128
}

// Lanes is the number of lanes (1 for scalars and V128).
func (s Shape) Lanes() int {
	if !s.IsVector() || s == V128 {
		return 1
	}
	return 128 / s.LaneBits()
}

// Bytes is the size of a value of this shape in linear memory.
func (s Shape) Bytes() int {
	if s.IsVector() {
		return 16
	}
	return s.LaneBits() / 8
}

// ImmKind is the kind of immediate that follows the opcode.
type ImmKind uint8

const (
	ImmNone    ImmKind = iota
	ImmLane            // one byte lane index < Op.ImmLanes
	ImmShuffle         // sixteen byte lane indexes, each < 32
)

// NaNRule says whether the result bits of float lanes are fully determined.
type NaNRule uint8

const (
	// NaNExact: result bits are fully determined by the operand bits (integer
	// results, abs/neg/copysign, reinterpret, pmin/pmax, lane moves, compares ...).
	NaNExact NaNRule = iota
	// NaNSpec: when the (lane) result is a NaN the spec allows a set: a canonical
	// NaN (either sign) if every NaN operand is canonical (or none is NaN), else
	// any arithmetic NaN.
	NaNSpec
)

// Op is one table row.
type Op struct {
	Name     string
	Prefix   byte   // 0 (single byte opcode), 0xfc or 0xfd
	Code     uint32 // opcode byte, or LEB sub-opcode after the prefix
	Imm      ImmKind
	ImmLanes int // ImmLane: number of valid lane indexes
	Params   []Shape
	Result   Shape
	Class    string
	MayTrap  bool
	NaN      NaNRule
	Feature  string // mvp | sign-ext | sat-trunc | simd
	Index    int    // position in Table
}

func (o *Op) ParamTypes() []wenc.ValType {
	out := make([]wenc.ValType, len(o.Params))
	for i, s := range o.Params {
		out[i] = s.ValType()
	}
	return out
}

func (o *Op) ResultTypes() []wenc.ValType { return []wenc.ValType{o.Result.ValType()} }

// ImmLen is the number of immediate bytes the instruction takes.
func (o *Op) ImmLen() int {
	switch o.Imm {
	case ImmLane:
		return 1
	case ImmShuffle:
		return 16
	}
	return 0
}

// Encode appends the instruction (opcode and immediates) to b.
func (o *Op) Encode(b []byte, imm []byte) []byte {
	if len(imm) != o.ImmLen() {
		panic(fmt.Sprintf("wops: %s needs %d immediate bytes, got %d", o.Name, o.ImmLen(), len(imm)))
	}
	if o.Prefix == 0 {
		b = append(b, byte(o.Code))
	} else {
		b = append(b, o.Prefix)
		b = wenc.U32(b, o.Code)
	}
	return append(b, imm...)
}

// Emit appends the instruction to a code builder.
func (o *Op) Emit(c *wenc.Code, imm []byte) *wenc.Code {
	c.B = o.Encode(c.B, imm)
	return c
}

// EncodingString is e.g. "0x6a", "0xfc 0x03", "0xfd 0x8e".
func (o *Op) EncodingString() string {
	if o.Prefix == 0 {
		return fmt.Sprintf("0x%02x", o.Code)
	}
	return fmt.Sprintf("0x%02x 0x%02x", o.Prefix, o.Code)
}

// Table is every row in encoding order (scalar, 0xfc, 0xfd).
var Table []*Op

var byName = map[string]*Op{}
var byCode = map[uint32]*Op{}

// ByName returns the row with that text-format name or nil.
func ByName(name string) *Op { return byName[name] }

// Lookup returns the row with that encoding or nil.
func Lookup(prefix byte, code uint32) *Op { return byCode[uint32(prefix)<<16|code] }

var shapeByName = map[string]Shape{}

func init() {
	for i, n := range shapeNames {
		shapeByName[n] = Shape(i)
	}
	for ln, line := range strings.Split(rows, "\n") {
		line = strings.TrimSpace(line)
		if line == "" || strings.HasPrefix(line, "#") {
			continue
		}
		f := strings.Fields(line)
		bad := func(why string) { panic(fmt.Sprintf("wops: table line %d (%q): %s", ln+1, line, why)) }
		if len(f) < 7 {
			bad("too few columns")
		}
		o := &Op{}
		switch f[0] {
		case "--":
		case "fc":
			o.Prefix = 0xfc
		case "fd":
			o.Prefix = 0xfd
		default:
			bad("prefix")
		}
		code, err := strconv.ParseUint(f[1], 16, 32)
		if err != nil {
			bad("code")
		}
		o.Code = uint32(code)
		o.Name = f[2]
		i := 3
		for ; i < len(f) && f[i] != "->"; i++ {
			s, ok := shapeByName[f[i]]
			if !ok {
				bad("param shape " + f[i])
			}
			o.Params = append(o.Params, s)
		}
		if i+2 >= len(f) {
			bad("missing result/class")
		}
		r, ok := shapeByName[f[i+1]]
		if !ok {
			bad("result shape")
		}
		o.Result = r
		o.Class = f[i+2]
		for _, fl := range f[i+3:] {
			switch {
			case fl == "trap":
				o.MayTrap = true
			case fl == "nan":
				o.NaN = NaNSpec
			case fl == "shuffle":
				o.Imm = ImmShuffle
			case strings.HasPrefix(fl, "lane"):
				o.Imm = ImmLane
				n, err := strconv.Atoi(fl[4:])
				if err != nil {
					bad("lane count")
				}
				o.ImmLanes = n
			default:
				bad("flag " + fl)
			}
		}
		switch {
		case o.Prefix == 0xfd:
			o.Feature = "simd"
		case o.Prefix == 0xfc:
			o.Feature = "sat-trunc"
		case o.Code >= 0xc0:
			o.Feature = "sign-ext"
		default:
			o.Feature = "mvp"
		}
		if byName[o.Name] != nil {
			bad("duplicate name")
		}
		key := uint32(o.Prefix)<<16 | o.Code
		if byCode[key] != nil {
			bad("duplicate encoding")
		}
		o.Index = len(Table)
		byName[o.Name] = o
		byCode[key] = o
		Table = append(Table, o)
	}
}

// rows: <prefix|--> <hex code> <name> <param shapes...> -> <result shape> <class> [trap] [nan] [laneN|shuffle]
const rows = `
# ---- i32 / i64 test and compare
-- 45 i32.eqz   i32 -> i32 int.test
-- 46 i32.eq    i32 i32 -> i32 int.cmp
-- 47 i32.ne    i32 i32 -> i32 int.cmp
-- 48 i32.lt_s  i32 i32 -> i32 int.cmp
-- 49 i32.lt_u  i32 i32 -> i32 int.cmp
-- 4a i32.gt_s  i32 i32 -> i32 int.cmp
-- 4b i32.gt_u  i32 i32 -> i32 int.cmp
-- 4c i32.le_s  i32 i32 -> i32 int.cmp
-- 4d i32.le_u  i32 i32 -> i32 int.cmp
-- 4e i32.ge_s  i32 i32 -> i32 int.cmp
-- 4f i32.ge_u  i32 i32 -> i32 int.cmp
-- 50 i64.eqz   i64 -> i32 int.test
-- 51 i64.eq    i64 i64 -> i32 int.cmp
-- 52 i64.ne    i64 i64 -> i32 int.cmp
-- 53 i64.lt_s  i64 i64 -> i32 int.cmp
-- 54 i64.lt_u  i64 i64 -> i32 int.cmp
-- 55 i64.gt_s  i64 i64 -> i32 int.cmp
-- 56 i64.gt_u  i64 i64 -> i32 int.cmp
-- 57 i64.le_s  i64 i64 -> i32 int.cmp
-- 58 i64.le_u  i64 i64 -> i32 int.cmp
-- 59 i64.ge_s  i64 i64 -> i32 int.cmp
-- 5a i64.ge_u  i64 i64 -> i32 int.cmp
# ---- f32 / f64 compare
-- 5b f32.eq    f32 f32 -> i32 float.cmp
-- 5c f32.ne    f32 f32 -> i32 float.cmp
-- 5d f32.lt    f32 f32 -> i32 float.cmp
-- 5e f32.gt    f32 f32 -> i32 float.cmp
-- 5f f32.le    f32 f32 -> i32 float.cmp
-- 60 f32.ge    f32 f32 -> i32 float.cmp
-- 61 f64.eq    f64 f64 -> i32 float.cmp
-- 62 f64.ne    f64 f64 -> i32 float.cmp
-- 63 f64.lt    f64 f64 -> i32 float.cmp
-- 64 f64.gt    f64 f64 -> i32 float.cmp
-- 65 f64.le    f64 f64 -> i32 float.cmp
-- 66 f64.ge    f64 f64 -> i32 float.cmp
# ---- i32 arithmetic
-- 67 i32.clz    i32 -> i32 int.unary
-- 68 i32.ctz    i32 -> i32 int.unary
-- 69 i32.popcnt i32 -> i32 int.unary
-- 6a i32.add    i32 i32 -> i32 int.binary
-- 6b i32.sub    i32 i32 -> i32 int.binary
-- 6c i32.mul    i32 i32 -> i32 int.binary
-- 6d i32.div_s  i32 i32 -> i32 int.divrem trap
-- 6e i32.div_u  i32 i32 -> i32 int.divrem trap
-- 6f i32.rem_s  i32 i32 -> i32 int.divrem trap
-- 70 i32.rem_u  i32 i32 -> i32 int.divrem trap
-- 71 i32.and    i32 i32 -> i32 int.binary
-- 72 i32.or     i32 i32 -> i32 int.binary
-- 73 i32.xor    i32 i32 -> i32 int.binary
-- 74 i32.shl    i32 i32 -> i32 int.shift
-- 75 i32.shr_s  i32 i32 -> i32 int.shift
-- 76 i32.shr_u  i32 i32 -> i32 int.shift
-- 77 i32.rotl   i32 i32 -> i32 int.shift
-- 78 i32.rotr   i32 i32 -> i32 int.shift
# ---- i64 arithmetic
-- 79 i64.clz    i64 -> i64 int.unary
-- 7a i64.ctz    i64 -> i64 int.unary
-- 7b i64.popcnt i64 -> i64 int.unary
-- 7c i64.add    i64 i64 -> i64 int.binary
-- 7d i64.sub    i64 i64 -> i64 int.binary
-- 7e i64.mul    i64 i64 -> i64 int.binary
-- 7f i64.div_s  i64 i64 -> i64 int.divrem trap
-- 80 i64.div_u  i64 i64 -> i64 int.divrem trap
-- 81 i64.rem_s  i64 i64 -> i64 int.divrem trap
-- 82 i64.rem_u  i64 i64 -> i64 int.divrem trap
-- 83 i64.and    i64 i64 -> i64 int.binary
-- 84 i64.or     i64 i64 -> i64 int.binary
-- 85 i64.xor    i64 i64 -> i64 int.binary
-- 86 i64.shl    i64 i64 -> i64 int.shift
-- 87 i64.shr_s  i64 i64 -> i64 int.shift
-- 88 i64.shr_u  i64 i64 -> i64 int.shift
-- 89 i64.rotl   i64 i64 -> i64 int.shift
-- 8a i64.rotr   i64 i64 -> i64 int.shift
# ---- f32 arithmetic
-- 8b f32.abs      f32 -> f32 float.sign
-- 8c f32.neg      f32 -> f32 float.sign
-- 8d f32.ceil     f32 -> f32 float.round nan
-- 8e f32.floor    f32 -> f32 float.round nan
-- 8f f32.trunc    f32 -> f32 float.round nan
-- 90 f32.nearest  f32 -> f32 float.round nan
-- 91 f32.sqrt     f32 -> f32 float.unary nan
-- 92 f32.add      f32 f32 -> f32 float.binary nan
-- 93 f32.sub      f32 f32 -> f32 float.binary nan
-- 94 f32.mul      f32 f32 -> f32 float.binary nan
-- 95 f32.div      f32 f32 -> f32 float.binary nan
-- 96 f32.min      f32 f32 -> f32 float.minmax nan
-- 97 f32.max      f32 f32 -> f32 float.minmax nan
-- 98 f32.copysign f32 f32 -> f32 float.sign
# ---- f64 arithmetic
-- 99 f64.abs      f64 -> f64 float.sign
-- 9a f64.neg      f64 -> f64 float.sign
-- 9b f64.ceil     f64 -> f64 float.round nan
-- 9c f64.floor    f64 -> f64 float.round nan
-- 9d f64.trunc    f64 -> f64 float.round nan
-- 9e f64.nearest  f64 -> f64 float.round nan
-- 9f f64.sqrt     f64 -> f64 float.unary nan
-- a0 f64.add      f64 f64 -> f64 float.binary nan
-- a1 f64.sub      f64 f64 -> f64 float.binary nan
-- a2 f64.mul      f64 f64 -> f64 float.binary nan
-- a3 f64.div      f64 f64 -> f64 float.binary nan
-- a4 f64.min      f64 f64 -> f64 float.minmax nan
-- a5 f64.max      f64 f64 -> f64 float.minmax nan
-- a6 f64.copysign f64 f64 -> f64 float.sign
# ---- conversions
-- a7 i32.wrap_i64      i64 -> i32 conv.int
-- a8 i32.trunc_f32_s   f32 -> i32 conv.trunc trap
-- a9 i32.trunc_f32_u   f32 -> i32 conv.trunc trap
-- aa i32.trunc_f64_s   f64 -> i32 conv.trunc trap
-- ab i32.trunc_f64_u   f64 -> i32 conv.trunc trap
-- ac i64.extend_i32_s  i32 -> i64 conv.int
-- ad i64.extend_i32_u  i32 -> i64 conv.int
-- ae i64.trunc_f32_s   f32 -> i64 conv.trunc trap
-- af i64.trunc_f32_u   f32 -> i64 conv.trunc trap
-- b0 i64.trunc_f64_s   f64 -> i64 conv.trunc trap
-- b1 i64.trunc_f64_u   f64 -> i64 conv.trunc trap
-- b2 f32.convert_i32_s i32 -> f32 conv.int2float
-- b3 f32.convert_i32_u i32 -> f32 conv.int2float
-- b4 f32.convert_i64_s i64 -> f32 conv.int2float
-- b5 f32.convert_i64_u i64 -> f32 conv.int2float
-- b6 f32.demote_f64    f64 -> f32 conv.float nan
-- b7 f64.convert_i32_s i32 -> f64 conv.int2float
-- b8 f64.convert_i32_u i32 -> f64 conv.int2float
-- b9 f64.convert_i64_s i64 -> f64 conv.int2float
-- ba f64.convert_i64_u i64 -> f64 conv.int2float
-- bb f64.promote_f32   f32 -> f64 conv.float nan
-- bc i32.reinterpret_f32 f32 -> i32 reinterpret
-- bd i64.reinterpret_f64 f64 -> i64 reinterpret
-- be f32.reinterpret_i32 i32 -> f32 reinterpret
-- bf f64.reinterpret_i64 i64 -> f64 reinterpret
# ---- sign extension
-- c0 i32.extend8_s  i32 -> i32 conv.int
-- c1 i32.extend16_s i32 -> i32 conv.int
-- c2 i64.extend8_s  i64 -> i64 conv.int
-- c3 i64.extend16_s i64 -> i64 conv.int
-- c4 i64.extend32_s i64 -> i64 conv.int
# ---- saturating truncation
fc 00 i32.trunc_sat_f32_s f32 -> i32 conv.trunc_sat
fc 01 i32.trunc_sat_f32_u f32 -> i32 conv.trunc_sat
fc 02 i32.trunc_sat_f64_s f64 -> i32 conv.trunc_sat
fc 03 i32.trunc_sat_f64_u f64 -> i32 conv.trunc_sat
fc 04 i64.trunc_sat_f32_s f32 -> i64 conv.trunc_sat
fc 05 i64.trunc_sat_f32_u f32 -> i64 conv.trunc_sat
fc 06 i64.trunc_sat_f64_s f64 -> i64 conv.trunc_sat
fc 07 i64.trunc_sat_f64_u f64 -> i64 conv.trunc_sat
# ---- v128: shuffle, swizzle, splat, lanes
fd 0d i8x16.shuffle v128 v128 -> v128 vec.shuffle shuffle
fd 0e i8x16.swizzle i8x16 i8x16 -> i8x16 vec.swizzle
fd 0f i8x16.splat i32 -> i8x16 vec.splat
fd 10 i16x8.splat i32 -> i16x8 vec.splat
fd 11 i32x4.splat i32 -> i32x4 vec.splat
fd 12 i64x2.splat i64 -> i64x2 vec.splat
fd 13 f32x4.splat f32 -> f32x4 vec.splat
fd 14 f64x2.splat f64 -> f64x2 vec.splat
fd 15 i8x16.extract_lane_s i8x16 -> i32 vec.lane lane16
fd 16 i8x16.extract_lane_u i8x16 -> i32 vec.lane lane16
fd 17 i8x16.replace_lane   i8x16 i32 -> i8x16 vec.lane lane16
fd 18 i16x8.extract_lane_s i16x8 -> i32 vec.lane lane8
fd 19 i16x8.extract_lane_u i16x8 -> i32 vec.lane lane8
fd 1a i16x8.replace_lane   i16x8 i32 -> i16x8 vec.lane lane8
fd 1b i32x4.extract_lane   i32x4 -> i32 vec.lane lane4
fd 1c i32x4.replace_lane   i32x4 i32 -> i32x4 vec.lane lane4
fd 1d i64x2.extract_lane   i64x2 -> i64 vec.lane lane2
fd 1e i64x2.replace_lane   i64x2 i64 -> i64x2 vec.lane lane2
fd 1f f32x4.extract_lane   f32x4 -> f32 vec.lane lane4
fd 20 f32x4.replace_lane   f32x4 f32 -> f32x4 vec.lane lane4
fd 21 f64x2.extract_lane   f64x2 -> f64 vec.lane lane2
fd 22 f64x2.replace_lane   f64x2 f64 -> f64x2 vec.lane lane2
# ---- v128: integer comparisons
fd 23 i8x16.eq   i8x16 i8x16 -> i8x16 vec.icmp
fd 24 i8x16.ne   i8x16 i8x16 -> i8x16 vec.icmp
fd 25 i8x16.lt_s i8x16 i8x16 -> i8x16 vec.icmp
fd 26 i8x16.lt_u i8x16 i8x16 -> i8x16 vec.icmp
fd 27 i8x16.gt_s i8x16 i8x16 -> i8x16 vec.icmp
fd 28 i8x16.gt_u i8x16 i8x16 -> i8x16 vec.icmp
fd 29 i8x16.le_s i8x16 i8x16 -> i8x16 vec.icmp
fd 2a i8x16.le_u i8x16 i8x16 -> i8x16 vec.icmp
fd 2b i8x16.ge_s i8x16 i8x16 -> i8x16 vec.icmp
fd 2c i8x16.ge_u i8x16 i8x16 -> i8x16 vec.icmp
fd 2d i16x8.eq   i16x8 i16x8 -> i16x8 vec.icmp
fd 2e i16x8.ne   i16x8 i16x8 -> i16x8 vec.icmp
fd 2f i16x8.lt_s i16x8 i16x8 -> i16x8 vec.icmp
fd 30 i16x8.lt_u i16x8 i16x8 -> i16x8 vec.icmp
fd 31 i16x8.gt_s i16x8 i16x8 -> i16x8 vec.icmp
fd 32 i16x8.gt_u i16x8 i16x8 -> i16x8 vec.icmp
fd 33 i16x8.le_s i16x8 i16x8 -> i16x8 vec.icmp
fd 34 i16x8.le_u i16x8 i16x8 -> i16x8 vec.icmp
fd 35 i16x8.ge_s i16x8 i16x8 -> i16x8 vec.icmp
fd 36 i16x8.ge_u i16x8 i16x8 -> i16x8 vec.icmp
fd 37 i32x4.eq   i32x4 i32x4 -> i32x4 vec.icmp
fd 38 i32x4.ne   i32x4 i32x4 -> i32x4 vec.icmp
fd 39 i32x4.lt_s i32x4 i32x4 -> i32x4 vec.icmp
fd 3a i32x4.lt_u i32x4 i32x4 -> i32x4 vec.icmp
fd 3b i32x4.gt_s i32x4 i32x4 -> i32x4 vec.icmp
fd 3c i32x4.gt_u i32x4 i32x4 -> i32x4 vec.icmp
fd 3d i32x4.le_s i32x4 i32x4 -> i32x4 vec.icmp
fd 3e i32x4.le_u i32x4 i32x4 -> i32x4 vec.icmp
fd 3f i32x4.ge_s i32x4 i32x4 -> i32x4 vec.icmp
fd 40 i32x4.ge_u i32x4 i32x4 -> i32x4 vec.icmp
# ---- v128: float comparisons
fd 41 f32x4.eq f32x4 f32x4 -> i32x4 vec.fcmp
fd 42 f32x4.ne f32x4 f32x4 -> i32x4 vec.fcmp
fd 43 f32x4.lt f32x4 f32x4 -> i32x4 vec.fcmp
fd 44 f32x4.gt f32x4 f32x4 -> i32x4 vec.fcmp
fd 45 f32x4.le f32x4 f32x4 -> i32x4 vec.fcmp
fd 46 f32x4.ge f32x4 f32x4 -> i32x4 vec.fcmp
fd 47 f64x2.eq f64x2 f64x2 -> i64x2 vec.fcmp
fd 48 f64x2.ne f64x2 f64x2 -> i64x2 vec.fcmp
fd 49 f64x2.lt f64x2 f64x2 -> i64x2 vec.fcmp
fd 4a f64x2.gt f64x2 f64x2 -> i64x2 vec.fcmp
fd 4b f64x2.le f64x2 f64x2 -> i64x2 vec.fcmp
fd 4c f64x2.ge f64x2 f64x2 -> i64x2 vec.fcmp
# ---- v128: bitwise
fd 4d v128.not       v128 -> v128 vec.bitwise
fd 4e v128.and       v128 v128 -> v128 vec.bitwise
fd 4f v128.andnot    v128 v128 -> v128 vec.bitwise
fd 50 v128.or        v128 v128 -> v128 vec.bitwise
fd 51 v128.xor       v128 v128 -> v128 vec.bitwise
fd 52 v128.bitselect v128 v128 v128 -> v128 vec.bitwise
fd 53 v128.any_true  v128 -> i32 vec.reduce
# ---- v128: float demote / promote
fd 5e f32x4.demote_f64x2_zero f64x2 -> f32x4 vec.fconv nan
fd 5f f64x2.promote_low_f32x4 f32x4 -> f64x2 vec.fconv nan
# ---- i8x16
fd 60 i8x16.abs            i8x16 -> i8x16 vec.iunary
fd 61 i8x16.neg            i8x16 -> i8x16 vec.iunary
fd 62 i8x16.popcnt         i8x16 -> i8x16 vec.iunary
fd 63 i8x16.all_true       i8x16 -> i32 vec.reduce
fd 64 i8x16.bitmask        i8x16 -> i32 vec.reduce
fd 65 i8x16.narrow_i16x8_s i16x8 i16x8 -> i8x16 vec.narrow
fd 66 i8x16.narrow_i16x8_u i16x8 i16x8 -> i8x16 vec.narrow
# ---- f32x4 rounding
fd 67 f32x4.ceil    f32x4 -> f32x4 vec.fround nan
fd 68 f32x4.floor   f32x4 -> f32x4 vec.fround nan
fd 69 f32x4.trunc   f32x4 -> f32x4 vec.fround nan
fd 6a f32x4.nearest f32x4 -> f32x4 vec.fround nan
fd 6b i8x16.shl       i8x16 i32 -> i8x16 vec.ishift
fd 6c i8x16.shr_s     i8x16 i32 -> i8x16 vec.ishift
fd 6d i8x16.shr_u     i8x16 i32 -> i8x16 vec.ishift
fd 6e i8x16.add       i8x16 i8x16 -> i8x16 vec.ibinary
fd 6f i8x16.add_sat_s i8x16 i8x16 -> i8x16 vec.isat
fd 70 i8x16.add_sat_u i8x16 i8x16 -> i8x16 vec.isat
fd 71 i8x16.sub       i8x16 i8x16 -> i8x16 vec.ibinary
fd 72 i8x16.sub_sat_s i8x16 i8x16 -> i8x16 vec.isat
fd 73 i8x16.sub_sat_u i8x16 i8x16 -> i8x16 vec.isat
fd 74 f64x2.ceil      f64x2 -> f64x2 vec.fround nan
fd 75 f64x2.floor     f64x2 -> f64x2 vec.fround nan
fd 76 i8x16.min_s     i8x16 i8x16 -> i8x16 vec.iminmax
fd 77 i8x16.min_u     i8x16 i8x16 -> i8x16 vec.iminmax
fd 78 i8x16.max_s     i8x16 i8x16 -> i8x16 vec.iminmax
fd 79 i8x16.max_u     i8x16 i8x16 -> i8x16 vec.iminmax
fd 7a f64x2.trunc     f64x2 -> f64x2 vec.fround nan
fd 7b i8x16.avgr_u    i8x16 i8x16 -> i8x16 vec.ibinary
fd 7c i16x8.extadd_pairwise_i8x16_s i8x16 -> i16x8 vec.extadd
fd 7d i16x8.extadd_pairwise_i8x16_u i8x16 -> i16x8 vec.extadd
fd 7e i32x4.extadd_pairwise_i16x8_s i16x8 -> i32x4 vec.extadd
fd 7f i32x4.extadd_pairwise_i16x8_u i16x8 -> i32x4 vec.extadd
# ---- i16x8
fd 80 i16x8.abs             i16x8 -> i16x8 vec.iunary
fd 81 i16x8.neg             i16x8 -> i16x8 vec.iunary
fd 82 i16x8.q15mulr_sat_s   i16x8 i16x8 -> i16x8 vec.isat
fd 83 i16x8.all_true        i16x8 -> i32 vec.reduce
fd 84 i16x8.bitmask         i16x8 -> i32 vec.reduce
fd 85 i16x8.narrow_i32x4_s  i32x4 i32x4 -> i16x8 vec.narrow
fd 86 i16x8.narrow_i32x4_u  i32x4 i32x4 -> i16x8 vec.narrow
fd 87 i16x8.extend_low_i8x16_s  i8x16 -> i16x8 vec.extend
fd 88 i16x8.extend_high_i8x16_s i8x16 -> i16x8 vec.extend
fd 89 i16x8.extend_low_i8x16_u  i8x16 -> i16x8 vec.extend
fd 8a i16x8.extend_high_i8x16_u i8x16 -> i16x8 vec.extend
fd 8b i16x8.shl       i16x8 i32 -> i16x8 vec.ishift
fd 8c i16x8.shr_s     i16x8 i32 -> i16x8 vec.ishift
fd 8d i16x8.shr_u     i16x8 i32 -> i16x8 vec.ishift
fd 8e i16x8.add       i16x8 i16x8 -> i16x8 vec.ibinary
fd 8f i16x8.add_sat_s i16x8 i16x8 -> i16x8 vec.isat
fd 90 i16x8.add_sat_u i16x8 i16x8 -> i16x8 vec.isat
fd 91 i16x8.sub       i16x8 i16x8 -> i16x8 vec.ibinary
fd 92 i16x8.sub_sat_s i16x8 i16x8 -> i16x8 vec.isat
fd 93 i16x8.sub_sat_u i16x8 i16x8 -> i16x8 vec.isat
fd 94 f64x2.nearest   f64x2 -> f64x2 vec.fround nan
fd 95 i16x8.mul       i16x8 i16x8 -> i16x8 vec.ibinary
fd 96 i16x8.min_s     i16x8 i16x8 -> i16x8 vec.iminmax
fd 97 i16x8.min_u     i16x8 i16x8 -> i16x8 vec.iminmax
fd 98 i16x8.max_s     i16x8 i16x8 -> i16x8 vec.iminmax
fd 99 i16x8.max_u     i16x8 i16x8 -> i16x8 vec.iminmax
fd 9b i16x8.avgr_u    i16x8 i16x8 -> i16x8 vec.ibinary
fd 9c i16x8.extmul_low_i8x16_s  i8x16 i8x16 -> i16x8 vec.extmul
fd 9d i16x8.extmul_high_i8x16_s i8x16 i8x16 -> i16x8 vec.extmul
fd 9e i16x8.extmul_low_i8x16_u  i8x16 i8x16 -> i16x8 vec.extmul
fd 9f i16x8.extmul_high_i8x16_u i8x16 i8x16 -> i16x8 vec.extmul
# ---- i32x4
fd a0 i32x4.abs       i32x4 -> i32x4 vec.iunary
fd a1 i32x4.neg       i32x4 -> i32x4 vec.iunary
fd a3 i32x4.all_true  i32x4 -> i32 vec.reduce
fd a4 i32x4.bitmask   i32x4 -> i32 vec.reduce
fd a7 i32x4.extend_low_i16x8_s  i16x8 -> i32x4 vec.extend
fd a8 i32x4.extend_high_i16x8_s i16x8 -> i32x4 vec.extend
fd a9 i32x4.extend_low_i16x8_u  i16x8 -> i32x4 vec.extend
fd aa i32x4.extend_high_i16x8_u i16x8 -> i32x4 vec.extend
fd ab i32x4.shl       i32x4 i32 -> i32x4 vec.ishift
fd ac i32x4.shr_s     i32x4 i32 -> i32x4 vec.ishift
fd ad i32x4.shr_u     i32x4 i32 -> i32x4 vec.ishift
fd ae i32x4.add       i32x4 i32x4 -> i32x4 vec.ibinary
fd b1 i32x4.sub       i32x4 i32x4 -> i32x4 vec.ibinary
fd b5 i32x4.mul       i32x4 i32x4 -> i32x4 vec.ibinary
fd b6 i32x4.min_s     i32x4 i32x4 -> i32x4 vec.iminmax
fd b7 i32x4.min_u     i32x4 i32x4 -> i32x4 vec.iminmax
fd b8 i32x4.max_s     i32x4 i32x4 -> i32x4 vec.iminmax
fd b9 i32x4.max_u     i32x4 i32x4 -> i32x4 vec.iminmax
fd ba i32x4.dot_i16x8_s i16x8 i16x8 -> i32x4 vec.dot
fd bc i32x4.extmul_low_i16x8_s  i16x8 i16x8 -> i32x4 vec.extmul
fd bd i32x4.extmul_high_i16x8_s i16x8 i16x8 -> i32x4 vec.extmul
fd be i32x4.extmul_low_i16x8_u  i16x8 i16x8 -> i32x4 vec.extmul
fd bf i32x4.extmul_high_i16x8_u i16x8 i16x8 -> i32x4 vec.extmul
# ---- i64x2
fd c0 i64x2.abs       i64x2 -> i64x2 vec.iunary
fd c1 i64x2.neg       i64x2 -> i64x2 vec.iunary
fd c3 i64x2.all_true  i64x2 -> i32 vec.reduce
fd c4 i64x2.bitmask   i64x2 -> i32 vec.reduce
fd c7 i64x2.extend_low_i32x4_s  i32x4 -> i64x2 vec.extend
fd c8 i64x2.extend_high_i32x4_s i32x4 -> i64x2 vec.extend
fd c9 i64x2.extend_low_i32x4_u  i32x4 -> i64x2 vec.extend
fd ca i64x2.extend_high_i32x4_u i32x4 -> i64x2 vec.extend
fd cb i64x2.shl       i64x2 i32 -> i64x2 vec.ishift
fd cc i64x2.shr_s     i64x2 i32 -> i64x2 vec.ishift
fd cd i64x2.shr_u     i64x2 i32 -> i64x2 vec.ishift
fd ce i64x2.add       i64x2 i64x2 -> i64x2 vec.ibinary
fd d1 i64x2.sub       i64x2 i64x2 -> i64x2 vec.ibinary
fd d5 i64x2.mul       i64x2 i64x2 -> i64x2 vec.ibinary
fd d6 i64x2.eq        i64x2 i64x2 -> i64x2 vec.icmp
fd d7 i64x2.ne        i64x2 i64x2 -> i64x2 vec.icmp
fd d8 i64x2.lt_s      i64x2 i64x2 -> i64x2 vec.icmp
fd d9 i64x2.gt_s      i64x2 i64x2 -> i64x2 vec.icmp
fd da i64x2.le_s      i64x2 i64x2 -> i64x2 vec.icmp
fd db i64x2.ge_s      i64x2 i64x2 -> i64x2 vec.icmp
fd dc i64x2.extmul_low_i32x4_s  i32x4 i32x4 -> i64x2 vec.extmul
fd dd i64x2.extmul_high_i32x4_s i32x4 i32x4 -> i64x2 vec.extmul
fd de i64x2.extmul_low_i32x4_u  i32x4 i32x4 -> i64x2 vec.extmul
fd df i64x2.extmul_high_i32x4_u i32x4 i32x4 -> i64x2 vec.extmul
# ---- f32x4
fd e0 f32x4.abs  f32x4 -> f32x4 vec.fsign
fd e1 f32x4.neg  f32x4 -> f32x4 vec.fsign
fd e3 f32x4.sqrt f32x4 -> f32x4 vec.funary nan
fd e4 f32x4.add  f32x4 f32x4 -> f32x4 vec.fbinary nan
fd e5 f32x4.sub  f32x4 f32x4 -> f32x4 vec.fbinary nan
fd e6 f32x4.mul  f32x4 f32x4 -> f32x4 vec.fbinary nan
fd e7 f32x4.div  f32x4 f32x4 -> f32x4 vec.fbinary nan
fd e8 f32x4.min  f32x4 f32x4 -> f32x4 vec.fminmax nan
fd e9 f32x4.max  f32x4 f32x4 -> f32x4 vec.fminmax nan
fd ea f32x4.pmin f32x4 f32x4 -> f32x4 vec.fpminmax
fd eb f32x4.pmax f32x4 f32x4 -> f32x4 vec.fpminmax
# ---- f64x2
fd ec f64x2.abs  f64x2 -> f64x2 vec.fsign
fd ed f64x2.neg  f64x2 -> f64x2 vec.fsign
fd ef f64x2.sqrt f64x2 -> f64x2 vec.funary nan
fd f0 f64x2.add  f64x2 f64x2 -> f64x2 vec.fbinary nan
fd f1 f64x2.sub  f64x2 f64x2 -> f64x2 vec.fbinary nan
fd f2 f64x2.mul  f64x2 f64x2 -> f64x2 vec.fbinary nan
fd f3 f64x2.div  f64x2 f64x2 -> f64x2 vec.fbinary nan
fd f4 f64x2.min  f64x2 f64x2 -> f64x2 vec.fminmax nan
fd f5 f64x2.max  f64x2 f64x2 -> f64x2 vec.fminmax nan
fd f6 f64x2.pmin f64x2 f64x2 -> f64x2 vec.fpminmax
fd f7 f64x2.pmax f64x2 f64x2 -> f64x2 vec.fpminmax
# ---- v128 conversions
fd f8 i32x4.trunc_sat_f32x4_s      f32x4 -> i32x4 vec.trunc_sat
fd f9 i32x4.trunc_sat_f32x4_u      f32x4 -> i32x4 vec.trunc_sat
fd fa f32x4.convert_i32x4_s        i32x4 -> f32x4 vec.int2float
fd fb f32x4.convert_i32x4_u        i32x4 -> f32x4 vec.int2float
fd fc i32x4.trunc_sat_f64x2_s_zero f64x2 -> i32x4 vec.trunc_sat
fd fd i32x4.trunc_sat_f64x2_u_zero f64x2 -> i32x4 vec.trunc_sat
fd fe f64x2.convert_low_i32x4_s    i32x4 -> f64x2 vec.int2float
fd ff f64x2.convert_low_i32x4_u    i32x4 -> f64x2 vec.int2float
`
