package wops

import (
	"strings"
	"testing"

	"github.com/tetratelabs/wazero/internal/wasm"
)

// wazero's name strings deviate from the spec text format for these (same instruction).
var alias = map[string]string{
	"f32.convert_i64u": "f32.convert_i64_u", "v128.shuffle": "i8x16.shuffle",
	"i8x16.sub_s": "i8x16.sub_sat_s", "i8x16.sub_u": "i8x16.sub_sat_u",
	"i64x2.lt": "i64x2.lt_s", "i64x2.gt": "i64x2.gt_s", "i64x2.le": "i64x2.le_s", "i64x2.ge": "i64x2.ge_s",
}

// Every row must agree with wazero's own opcode constants (name <-> value), and
// every numeric opcode wazero knows must have a row.
func TestAgainstWazeroConstants(t *testing.T) {
	n := map[byte]int{}
	for _, o := range Table {
		n[o.Prefix]++
		var wz string
		switch o.Prefix {
		case 0:
			wz = wasm.InstructionName(wasm.Opcode(o.Code))
		case 0xfc:
			wz = wasm.MiscInstructionName(wasm.OpcodeMisc(o.Code))
		case 0xfd:
			wz = wasm.VectorInstructionName(wasm.OpcodeVec(o.Code))
		}
		if alias[wz] == o.Name {
			wz = o.Name
		}
		if wz != o.Name {
			t.Errorf("%s %s: wazero calls this encoding %q", o.EncodingString(), o.Name, wz)
		}
	}
	if n[0] != 128 || n[0xfc] != 8 || n[0xfd] != 213 {
		t.Errorf("row counts scalar=%d fc=%d fd=%d, want 128/8/213", n[0], n[0xfc], n[0xfd])
	}
	for c := 0x45; c <= 0xc4; c++ {
		if Lookup(0, uint32(c)) == nil {
			t.Errorf("no row for scalar opcode %#x (%s)", c, wasm.InstructionName(wasm.Opcode(c)))
		}
	}
	for c := 0; c < 256; c++ {
		name := wasm.VectorInstructionName(wasm.OpcodeVec(c))
		if name == "" || strings.Contains(name, "load") || strings.Contains(name, "store") || name == "v128.const" {
			continue
		}
		if Lookup(0xfd, uint32(c)) == nil {
			t.Errorf("no row for vector opcode %#x (%s)", c, name)
		}
	}
}

func TestShapesConsistent(t *testing.T) {
	for _, o := range Table {
		// name prefix must agree with the result shape, except for compares/tests/reductions/extract.
		pre := o.Name[:strings.IndexByte(o.Name, '.')]
		switch o.Class {
		case "int.test", "int.cmp", "float.cmp", "vec.fcmp", "vec.reduce":
			continue
		}
		if strings.Contains(o.Name, "extract_lane") {
			continue
		}
		want := o.Result.String()
		if pre == "v128" || o.Name == "i8x16.shuffle" {
			want = "v128"
			pre = "v128"
		}
		if pre != want {
			t.Errorf("%s: result shape %s", o.Name, o.Result)
		}
		if o.NaN == NaNSpec && !o.Result.IsFloat() {
			t.Errorf("%s: NaN rule on non-float result", o.Name)
		}
	}
}
