package wgen

import "github.com/tetratelabs/wazero/verifharness/wenc"

// numOp is a pure numeric instruction usable in expressions.
type numOp struct {
	Name string
	Enc  []byte
	In   []wenc.ValType
	Out  wenc.ValType
	NaN  bool // result NaN bits are left open by the spec -> canonicalise after it
	Lane int  // >0: needs a lane immediate < Lane
}

const (
	i32  = wenc.I32
	i64  = wenc.I64
	f32  = wenc.F32
	f64  = wenc.F64
	v128 = wenc.V128
)

func mk(name string, enc []byte, out wenc.ValType, nan bool, in ...wenc.ValType) numOp {
	return numOp{Name: name, Enc: enc, In: in, Out: out, NaN: nan}
}

func simd(sub uint32) []byte { return wenc.U32([]byte{0xfd}, sub) }

var scalarOps = buildScalarOps()

func buildScalarOps() []numOp {
	var o []numOp
	add := func(name string, op byte, out wenc.ValType, nan bool, in ...wenc.ValType) {
		o = append(o, mk(name, []byte{op}, out, nan, in...))
	}
	add("i32.eqz", 0x45, i32, false, i32)
	for i, n := range []string{"eq", "ne", "lt_s", "lt_u", "gt_s", "gt_u", "le_s", "le_u", "ge_s", "ge_u"} {
		add("i32."+n, byte(0x46+i), i32, false, i32, i32)
		add("i64."+n, byte(0x51+i), i32, false, i64, i64)
	}
	add("i64.eqz", 0x50, i32, false, i64)
	for i, n := range []string{"eq", "ne", "lt", "gt", "le", "ge"} {
		add("f32."+n, byte(0x5b+i), i32, false, f32, f32)
		add("f64."+n, byte(0x61+i), i32, false, f64, f64)
	}
	for i, n := range []string{"clz", "ctz", "popcnt"} {
		add("i32."+n, byte(0x67+i), i32, false, i32)
		add("i64."+n, byte(0x79+i), i64, false, i64)
	}
	for i, n := range []string{"add", "sub", "mul", "div_s", "div_u", "rem_s", "rem_u", "and", "or", "xor", "shl", "shr_s", "shr_u", "rotl", "rotr"} {
		add("i32."+n, byte(0x6a+i), i32, false, i32, i32)
		add("i64."+n, byte(0x7c+i), i64, false, i64, i64)
	}
	for i, n := range []string{"abs", "neg", "ceil", "floor", "trunc", "nearest", "sqrt"} {
		nan := i >= 2
		add("f32."+n, byte(0x8b+i), f32, nan, f32)
		add("f64."+n, byte(0x99+i), f64, nan, f64)
	}
	for i, n := range []string{"add", "sub", "mul", "div", "min", "max", "copysign"} {
		nan := i < 6
		add("f32."+n, byte(0x92+i), f32, nan, f32, f32)
		add("f64."+n, byte(0xa0+i), f64, nan, f64, f64)
	}
	add("i32.wrap_i64", 0xa7, i32, false, i64)
	add("i32.trunc_f32_s", 0xa8, i32, false, f32)
	add("i32.trunc_f32_u", 0xa9, i32, false, f32)
	add("i32.trunc_f64_s", 0xaa, i32, false, f64)
	add("i32.trunc_f64_u", 0xab, i32, false, f64)
	add("i64.extend_i32_s", 0xac, i64, false, i32)
	add("i64.extend_i32_u", 0xad, i64, false, i32)
	add("i64.trunc_f32_s", 0xae, i64, false, f32)
	add("i64.trunc_f32_u", 0xaf, i64, false, f32)
	add("i64.trunc_f64_s", 0xb0, i64, false, f64)
	add("i64.trunc_f64_u", 0xb1, i64, false, f64)
	add("f32.convert_i32_s", 0xb2, f32, false, i32)
	add("f32.convert_i32_u", 0xb3, f32, false, i32)
	add("f32.convert_i64_s", 0xb4, f32, false, i64)
	add("f32.convert_i64_u", 0xb5, f32, false, i64)
	add("f32.demote_f64", 0xb6, f32, true, f64)
	add("f64.convert_i32_s", 0xb7, f64, false, i32)
	add("f64.convert_i32_u", 0xb8, f64, false, i32)
	add("f64.convert_i64_s", 0xb9, f64, false, i64)
	add("f64.convert_i64_u", 0xba, f64, false, i64)
	add("f64.promote_f32", 0xbb, f64, true, f32)
	add("i32.reinterpret_f32", 0xbc, i32, false, f32)
	add("i64.reinterpret_f64", 0xbd, i64, false, f64)
	add("f32.reinterpret_i32", 0xbe, f32, false, i32)
	add("f64.reinterpret_i64", 0xbf, f64, false, i64)
	add("i32.extend8_s", 0xc0, i32, false, i32)
	add("i32.extend16_s", 0xc1, i32, false, i32)
	add("i64.extend8_s", 0xc2, i64, false, i64)
	add("i64.extend16_s", 0xc3, i64, false, i64)
	add("i64.extend32_s", 0xc4, i64, false, i64)
	for i, n := range []string{"i32.trunc_sat_f32_s", "i32.trunc_sat_f32_u", "i32.trunc_sat_f64_s", "i32.trunc_sat_f64_u",
		"i64.trunc_sat_f32_s", "i64.trunc_sat_f32_u", "i64.trunc_sat_f64_s", "i64.trunc_sat_f64_u"} {
		out := i32
		if i >= 4 {
			out = i64
		}
		in := f32
		if i%4 >= 2 {
			in = f64
		}
		o = append(o, mk(n, []byte{0xfc, byte(i)}, wenc.ValType(out), false, wenc.ValType(in)))
	}
	return o
}

var simdOps = buildSimdOps()

func buildSimdOps() []numOp {
	var o []numOp
	un := func(name string, sub uint32, nan bool) { o = append(o, mk(name, simd(sub), v128, nan, v128)) }
	bin := func(name string, sub uint32, nan bool) { o = append(o, mk(name, simd(sub), v128, nan, v128, v128)) }
	toI32 := func(name string, sub uint32) { o = append(o, mk(name, simd(sub), i32, false, v128)) }
	shift := func(name string, sub uint32) { o = append(o, mk(name, simd(sub), v128, false, v128, i32)) }
	bin("i8x16.swizzle", 0x0e, false)
	o = append(o, mk("i8x16.splat", simd(0x0f), v128, false, i32), mk("i16x8.splat", simd(0x10), v128, false, i32),
		mk("i32x4.splat", simd(0x11), v128, false, i32), mk("i64x2.splat", simd(0x12), v128, false, i64),
		mk("f32x4.splat", simd(0x13), v128, false, f32), mk("f64x2.splat", simd(0x14), v128, false, f64))
	lane := func(name string, sub uint32, lanes int, out wenc.ValType, in ...wenc.ValType) {
		o = append(o, numOp{Name: name, Enc: simd(sub), In: in, Out: out, Lane: lanes})
	}
	lane("i8x16.extract_lane_s", 0x15, 16, i32, v128)
	lane("i8x16.extract_lane_u", 0x16, 16, i32, v128)
	lane("i8x16.replace_lane", 0x17, 16, v128, v128, i32)
	lane("i16x8.extract_lane_s", 0x18, 8, i32, v128)
	lane("i16x8.extract_lane_u", 0x19, 8, i32, v128)
	lane("i16x8.replace_lane", 0x1a, 8, v128, v128, i32)
	lane("i32x4.extract_lane", 0x1b, 4, i32, v128)
	lane("i32x4.replace_lane", 0x1c, 4, v128, v128, i32)
	lane("i64x2.extract_lane", 0x1d, 2, i64, v128)
	lane("i64x2.replace_lane", 0x1e, 2, v128, v128, i64)
	lane("f32x4.extract_lane", 0x1f, 4, f32, v128)
	lane("f32x4.replace_lane", 0x20, 4, v128, v128, f32)
	lane("f64x2.extract_lane", 0x21, 2, f64, v128)
	lane("f64x2.replace_lane", 0x22, 2, v128, v128, f64)
	cmp := []string{"eq", "ne", "lt_s", "lt_u", "gt_s", "gt_u", "le_s", "le_u", "ge_s", "ge_u"}
	for i, n := range cmp {
		bin("i8x16."+n, uint32(0x23+i), false)
		bin("i16x8."+n, uint32(0x2d+i), false)
		bin("i32x4."+n, uint32(0x37+i), false)
	}
	for i, n := range []string{"eq", "ne", "lt", "gt", "le", "ge"} {
		bin("f32x4."+n, uint32(0x41+i), false)
		bin("f64x2."+n, uint32(0x47+i), false)
	}
	un("v128.not", 0x4d, false)
	bin("v128.and", 0x4e, false)
	bin("v128.andnot", 0x4f, false)
	bin("v128.or", 0x50, false)
	bin("v128.xor", 0x51, false)
	o = append(o, mk("v128.bitselect", simd(0x52), v128, false, v128, v128, v128))
	toI32("v128.any_true", 0x53)
	un("f32x4.demote_f64x2_zero", 0x5e, true)
	un("f64x2.promote_low_f32x4", 0x5f, true)
	un("i8x16.abs", 0x60, false)
	un("i8x16.neg", 0x61, false)
	un("i8x16.popcnt", 0x62, false)
	toI32("i8x16.all_true", 0x63)
	toI32("i8x16.bitmask", 0x64)
	bin("i8x16.narrow_i16x8_s", 0x65, false)
	bin("i8x16.narrow_i16x8_u", 0x66, false)
	un("f32x4.ceil", 0x67, true)
	un("f32x4.floor", 0x68, true)
	un("f32x4.trunc", 0x69, true)
	un("f32x4.nearest", 0x6a, true)
	shift("i8x16.shl", 0x6b)
	shift("i8x16.shr_s", 0x6c)
	shift("i8x16.shr_u", 0x6d)
	for i, n := range []string{"add", "add_sat_s", "add_sat_u", "sub", "sub_sat_s", "sub_sat_u"} {
		bin("i8x16."+n, uint32(0x6e+i), false)
		bin("i16x8."+n, uint32(0x8e+i), false)
	}
	un("f64x2.ceil", 0x74, true)
	un("f64x2.floor", 0x75, true)
	for i, n := range []string{"min_s", "min_u", "max_s", "max_u"} {
		bin("i8x16."+n, uint32(0x76+i), false)
		bin("i16x8."+n, uint32(0x96+i), false)
		bin("i32x4."+n, uint32(0xb6+i), false)
	}
	un("f64x2.trunc", 0x7a, true)
	bin("i8x16.avgr_u", 0x7b, false)
	un("i16x8.extadd_pairwise_i8x16_s", 0x7c, false)
	un("i16x8.extadd_pairwise_i8x16_u", 0x7d, false)
	un("i32x4.extadd_pairwise_i16x8_s", 0x7e, false)
	un("i32x4.extadd_pairwise_i16x8_u", 0x7f, false)
	un("i16x8.abs", 0x80, false)
	un("i16x8.neg", 0x81, false)
	bin("i16x8.q15mulr_sat_s", 0x82, false)
	toI32("i16x8.all_true", 0x83)
	toI32("i16x8.bitmask", 0x84)
	bin("i16x8.narrow_i32x4_s", 0x85, false)
	bin("i16x8.narrow_i32x4_u", 0x86, false)
	for i, n := range []string{"extend_low_i8x16_s", "extend_high_i8x16_s", "extend_low_i8x16_u", "extend_high_i8x16_u"} {
		un("i16x8."+n, uint32(0x87+i), false)
	}
	shift("i16x8.shl", 0x8b)
	shift("i16x8.shr_s", 0x8c)
	shift("i16x8.shr_u", 0x8d)
	un("f64x2.nearest", 0x94, true)
	bin("i16x8.mul", 0x95, false)
	bin("i16x8.avgr_u", 0x9b, false)
	for i, n := range []string{"extmul_low_i8x16_s", "extmul_high_i8x16_s", "extmul_low_i8x16_u", "extmul_high_i8x16_u"} {
		bin("i16x8."+n, uint32(0x9c+i), false)
	}
	un("i32x4.abs", 0xa0, false)
	un("i32x4.neg", 0xa1, false)
	toI32("i32x4.all_true", 0xa3)
	toI32("i32x4.bitmask", 0xa4)
	for i, n := range []string{"extend_low_i16x8_s", "extend_high_i16x8_s", "extend_low_i16x8_u", "extend_high_i16x8_u"} {
		un("i32x4."+n, uint32(0xa7+i), false)
	}
	shift("i32x4.shl", 0xab)
	shift("i32x4.shr_s", 0xac)
	shift("i32x4.shr_u", 0xad)
	bin("i32x4.add", 0xae, false)
	bin("i32x4.sub", 0xb1, false)
	bin("i32x4.mul", 0xb5, false)
	bin("i32x4.dot_i16x8_s", 0xba, false)
	for i, n := range []string{"extmul_low_i16x8_s", "extmul_high_i16x8_s", "extmul_low_i16x8_u", "extmul_high_i16x8_u"} {
		bin("i32x4."+n, uint32(0xbc+i), false)
	}
	un("i64x2.abs", 0xc0, false)
	un("i64x2.neg", 0xc1, false)
	toI32("i64x2.all_true", 0xc3)
	toI32("i64x2.bitmask", 0xc4)
	for i, n := range []string{"extend_low_i32x4_s", "extend_high_i32x4_s", "extend_low_i32x4_u", "extend_high_i32x4_u"} {
		un("i64x2."+n, uint32(0xc7+i), false)
	}
	shift("i64x2.shl", 0xcb)
	shift("i64x2.shr_s", 0xcc)
	shift("i64x2.shr_u", 0xcd)
	bin("i64x2.add", 0xce, false)
	bin("i64x2.sub", 0xd1, false)
	bin("i64x2.mul", 0xd5, false)
	for i, n := range []string{"eq", "ne", "lt_s", "gt_s", "le_s", "ge_s"} {
		bin("i64x2."+n, uint32(0xd6+i), false)
	}
	for i, n := range []string{"extmul_low_i32x4_s", "extmul_high_i32x4_s", "extmul_low_i32x4_u", "extmul_high_i32x4_u"} {
		bin("i64x2."+n, uint32(0xdc+i), false)
	}
	un("f32x4.abs", 0xe0, false)
	un("f32x4.neg", 0xe1, false)
	un("f32x4.sqrt", 0xe3, true)
	for i, n := range []string{"add", "sub", "mul", "div", "min", "max"} {
		bin("f32x4."+n, uint32(0xe4+i), true)
		bin("f64x2."+n, uint32(0xf0+i), true)
	}
	bin("f32x4.pmin", 0xea, false)
	bin("f32x4.pmax", 0xeb, false)
	un("f64x2.abs", 0xec, false)
	un("f64x2.neg", 0xed, false)
	un("f64x2.sqrt", 0xef, true)
	bin("f64x2.pmin", 0xf6, false)
	bin("f64x2.pmax", 0xf7, false)
	un("i32x4.trunc_sat_f32x4_s", 0xf8, false)
	un("i32x4.trunc_sat_f32x4_u", 0xf9, false)
	un("f32x4.convert_i32x4_s", 0xfa, false)
	un("f32x4.convert_i32x4_u", 0xfb, false)
	un("i32x4.trunc_sat_f64x2_s_zero", 0xfc, false)
	un("i32x4.trunc_sat_f64x2_u_zero", 0xfd, false)
	un("f64x2.convert_low_i32x4_s", 0xfe, false)
	un("f64x2.convert_low_i32x4_u", 0xff, false)
	return o
}

// memOp is a load or store.
type memOp struct {
	Name  string
	Enc   []byte
	T     wenc.ValType // value type loaded / stored
	Width uint32       // bytes accessed
	Store bool
	Lane  int // simd lane ops: lanes count (value operand is v128 + lane imm)
}

var loadOps = []memOp{
	{"i32.load", []byte{0x28}, i32, 4, false, 0}, {"i64.load", []byte{0x29}, i64, 8, false, 0},
	{"f32.load", []byte{0x2a}, f32, 4, false, 0}, {"f64.load", []byte{0x2b}, f64, 8, false, 0},
	{"i32.load8_s", []byte{0x2c}, i32, 1, false, 0}, {"i32.load8_u", []byte{0x2d}, i32, 1, false, 0},
	{"i32.load16_s", []byte{0x2e}, i32, 2, false, 0}, {"i32.load16_u", []byte{0x2f}, i32, 2, false, 0},
	{"i64.load8_s", []byte{0x30}, i64, 1, false, 0}, {"i64.load8_u", []byte{0x31}, i64, 1, false, 0},
	{"i64.load16_s", []byte{0x32}, i64, 2, false, 0}, {"i64.load16_u", []byte{0x33}, i64, 2, false, 0},
	{"i64.load32_s", []byte{0x34}, i64, 4, false, 0}, {"i64.load32_u", []byte{0x35}, i64, 4, false, 0},
}

var storeOps = []memOp{
	{"i32.store", []byte{0x36}, i32, 4, true, 0}, {"i64.store", []byte{0x37}, i64, 8, true, 0},
	{"f32.store", []byte{0x38}, f32, 4, true, 0}, {"f64.store", []byte{0x39}, f64, 8, true, 0},
	{"i32.store8", []byte{0x3a}, i32, 1, true, 0}, {"i32.store16", []byte{0x3b}, i32, 2, true, 0},
	{"i64.store8", []byte{0x3c}, i64, 1, true, 0}, {"i64.store16", []byte{0x3d}, i64, 2, true, 0},
	{"i64.store32", []byte{0x3e}, i64, 4, true, 0},
}

var simdLoadOps = []memOp{
	{"v128.load", simd(0x00), v128, 16, false, 0},
	{"v128.load8x8_s", simd(0x01), v128, 8, false, 0}, {"v128.load8x8_u", simd(0x02), v128, 8, false, 0},
	{"v128.load16x4_s", simd(0x03), v128, 8, false, 0}, {"v128.load16x4_u", simd(0x04), v128, 8, false, 0},
	{"v128.load32x2_s", simd(0x05), v128, 8, false, 0}, {"v128.load32x2_u", simd(0x06), v128, 8, false, 0},
	{"v128.load8_splat", simd(0x07), v128, 1, false, 0}, {"v128.load16_splat", simd(0x08), v128, 2, false, 0},
	{"v128.load32_splat", simd(0x09), v128, 4, false, 0}, {"v128.load64_splat", simd(0x0a), v128, 8, false, 0},
	{"v128.load32_zero", simd(0x5c), v128, 4, false, 0}, {"v128.load64_zero", simd(0x5d), v128, 8, false, 0},
}

var simdStoreOps = []memOp{{"v128.store", simd(0x0b), v128, 16, true, 0}}

// lane load/store: (i32 addr, v128) -> v128 / ()
var simdLaneLoadOps = []memOp{
	{"v128.load8_lane", simd(0x54), v128, 1, false, 16}, {"v128.load16_lane", simd(0x55), v128, 2, false, 8},
	{"v128.load32_lane", simd(0x56), v128, 4, false, 4}, {"v128.load64_lane", simd(0x57), v128, 8, false, 2},
}
var simdLaneStoreOps = []memOp{
	{"v128.store8_lane", simd(0x58), v128, 1, true, 16}, {"v128.store16_lane", simd(0x59), v128, 2, true, 8},
	{"v128.store32_lane", simd(0x5a), v128, 4, true, 4}, {"v128.store64_lane", simd(0x5b), v128, 8, true, 2},
}

// atomicOp: threads proposal (executed single-threaded). Alignment must be natural.
type atomicOp struct {
	Name  string
	Sub   byte
	T     wenc.ValType
	Width uint32
	Kind  int // 0 load, 1 store, 2 rmw (addr,val)->val, 3 cmpxchg (addr,exp,repl)->val
}

var atomicOps = buildAtomicOps()

func buildAtomicOps() []atomicOp {
	var o []atomicOp
	o = append(o,
		atomicOp{"i32.atomic.load", 0x10, i32, 4, 0}, atomicOp{"i64.atomic.load", 0x11, i64, 8, 0},
		atomicOp{"i32.atomic.load8_u", 0x12, i32, 1, 0}, atomicOp{"i32.atomic.load16_u", 0x13, i32, 2, 0},
		atomicOp{"i64.atomic.load8_u", 0x14, i64, 1, 0}, atomicOp{"i64.atomic.load16_u", 0x15, i64, 2, 0},
		atomicOp{"i64.atomic.load32_u", 0x16, i64, 4, 0},
		atomicOp{"i32.atomic.store", 0x17, i32, 4, 1}, atomicOp{"i64.atomic.store", 0x18, i64, 8, 1},
		atomicOp{"i32.atomic.store8", 0x19, i32, 1, 1}, atomicOp{"i32.atomic.store16", 0x1a, i32, 2, 1},
		atomicOp{"i64.atomic.store8", 0x1b, i64, 1, 1}, atomicOp{"i64.atomic.store16", 0x1c, i64, 2, 1},
		atomicOp{"i64.atomic.store32", 0x1d, i64, 4, 1})
	for k, n := range []string{"add", "sub", "and", "or", "xor", "xchg", "cmpxchg"} {
		base := byte(0x1e + 7*k)
		kind := 2
		if n == "cmpxchg" {
			kind = 3
		}
		o = append(o,
			atomicOp{"i32.atomic.rmw." + n, base, i32, 4, kind}, atomicOp{"i64.atomic.rmw." + n, base + 1, i64, 8, kind},
			atomicOp{"i32.atomic.rmw8." + n + "_u", base + 2, i32, 1, kind}, atomicOp{"i32.atomic.rmw16." + n + "_u", base + 3, i32, 2, kind},
			atomicOp{"i64.atomic.rmw8." + n + "_u", base + 4, i64, 1, kind}, atomicOp{"i64.atomic.rmw16." + n + "_u", base + 5, i64, 2, kind},
			atomicOp{"i64.atomic.rmw32." + n + "_u", base + 6, i64, 4, kind})
	}
	return o
}
