// Package wgen is a by-construction-valid WebAssembly program generator
// ("wasm-smith-lite"): a type-directed stack-machine generator driven by a
// PRNG, with termination by fuel and NaN canonicalisation after every
// instruction whose NaN bits the spec leaves open.
package wgen

import (
	"fmt"

	"github.com/tetratelabs/wazero/verifharness/core"
	"github.com/tetratelabs/wazero/verifharness/wenc"
)

type Config struct {
	Funcs     int
	SIMD      bool
	Threads   bool // atomics, executed single-threaded (memory is shared iff SharedMem)
	SharedMem bool
	TailCall  bool
	MemMin    uint32
	MemMax    uint32
	TableSize uint32
	HostFuncs int
	Fuel      int32
	Stmts     int
	Depth     int
	// biases
	ManyLocals  bool
	CallHeavy   bool
	ABIHeavy    bool // wide signatures at the engines' register/stack boundaries sharing result lists, many (tail) calls
	MutateHeavy bool
	TrapHeavy   bool
	NoStart     bool
	// NoHostState: no hgrow/hwrite/hcb imports (pure logging hosts only)
	NoHostState bool
	// HostModule is the import module name of the host functions (default "env").
	HostModule string
}

func (c Config) HostModuleName() string {
	if c.HostModule == "" {
		return "env"
	}
	return c.HostModule
}

func DefaultConfig(r *core.Rng) Config {
	c := Config{
		Funcs: 2 + r.Intn(8), SIMD: r.Chance(1, 3), Threads: r.Chance(1, 6), TailCall: r.Chance(1, 4),
		MemMin: uint32(1 + r.Intn(2)), TableSize: uint32(4 + r.Intn(6)), HostFuncs: r.Intn(4),
		Fuel: 1500, Stmts: 4 + r.Intn(10), Depth: 2 + r.Intn(3),
		ManyLocals: r.Chance(1, 4), CallHeavy: r.Chance(1, 4), MutateHeavy: r.Chance(1, 4), TrapHeavy: r.Chance(1, 8),
	}
	c.MemMax = c.MemMin + uint32(r.Intn(4))
	if r.Chance(1, 25) {
		c.MemMin = 0
	}
	if c.Threads {
		c.SharedMem = r.Bool()
	}
	if r.Chance(1, 8) {
		c.ABIHeavy = true
		c.TailCall = r.Chance(3, 4)
	}
	if r.Chance(1, 40) {
		// a large host module: host-function indexes beyond one byte (the engines encode them in exit codes / tables)
		c.HostFuncs = 257 + r.Intn(64)
		c.CallHeavy = true
	}
	return c
}

type FuncSig struct {
	Params, Results []wenc.ValType
}

type GlobalInfo struct {
	Name    string
	Type    wenc.ValType
	Mutable bool
}

// Program is a generated module plus what the harness needs to drive it.
type Program struct {
	Bin       []byte
	Cfg       Config
	Host      []HostImport    // imports from module "env", in import order
	Funcs     []FuncSig       // exported as "f<i>"
	Globals   []GlobalInfo    // exported as "g<i>" (numeric/v128 only)
	Types     []wenc.FuncType // all function types in the module
	OpsUsed   map[string]int  // instruction name -> static count
	HasStart  bool
	FuncIndex map[string]uint32 // export name -> function index
	Mod       *wenc.Module      `json:"-"` // for reducers: bodies may be edited and Bin re-encoded
}

type HostImport struct {
	Name    string
	Kind    string // log | cb | grow | write
	Params  []wenc.ValType
	Results []wenc.ValType
}

type gen struct {
	r    *core.Rng
	cfg  Config
	m    *wenc.Module
	p    *Program
	sigs []FuncSig // all function indexes (imports first)
	nImp uint32
	// globals by type
	globals                  []wenc.GlobalType
	fuelG                    uint32
	memBytes                 uint32 // MemMin * 65536
	hasMem                   bool
	tableFns                 []uint32 // function index stored at table slot i by the active segment (or ^0)
	passiveData, passiveElem int
	cbFunc                   uint32
	abiResults               []wenc.ValType
	typesUsed                []wenc.FuncType
}

func (g *gen) use(name string) { g.p.OpsUsed[name]++ }

func (g *gen) numTypes() []wenc.ValType {
	t := []wenc.ValType{i32, i32, i64, f32, f64}
	if g.cfg.SIMD {
		t = append(t, v128)
	}
	return t
}

func (g *gen) randType() wenc.ValType {
	t := g.numTypes()
	return t[g.r.Intn(len(t))]
}

func (g *gen) randSig(maxP, maxR int) FuncSig {
	var s FuncSig
	np := g.r.Intn(maxP + 1)
	pick := g.randType
	if maxP >= 4 && g.r.Chance(1, 6) {
		// wide signature: crosses the engines' register/stack boundaries for arguments and results
		// (amd64: 7 integer and 8 float argument registers after the two context pointers)
		np = 5 + g.r.Intn(9) // 5..13
		switch g.r.Intn(4) {
		case 0:
			pick = func() wenc.ValType { return []wenc.ValType{i32, i64}[g.r.Intn(2)] }
		case 1:
			pick = func() wenc.ValType { return []wenc.ValType{f32, f64}[g.r.Intn(2)] }
		}
		if g.r.Chance(1, 3) {
			maxR = 9
		}
	}
	for i := 0; i < np; i++ {
		s.Params = append(s.Params, pick())
	}
	nr := 0
	switch g.r.Intn(6) {
	case 0:
		nr = 0
	case 1, 2, 3:
		nr = 1
	default:
		nr = 1 + g.r.Intn(maxR)
	}
	for i := 0; i < nr; i++ {
		s.Results = append(s.Results, pick())
	}
	return s
}

// abiSig draws a signature whose parameter and result counts sit around the register/stack boundaries of the engines'
// calling conventions (amd64: 7 integer / 8 float argument registers after the two context pointers, results alike),
// with a per-program shared result list so that tail calls find partners.
func (g *gen) abiSig() FuncSig {
	r := g.r
	var s FuncSig
	class := func() func() wenc.ValType {
		switch r.Intn(4) {
		case 0:
			return func() wenc.ValType { return []wenc.ValType{i32, i64}[r.Intn(2)] }
		case 1:
			return func() wenc.ValType { return []wenc.ValType{f32, f64}[r.Intn(2)] }
		}
		return g.randType
	}
	pp := class()
	np := []int{0, 1, 2, 6, 7, 8, 9, 10, 11}[r.Intn(9)]
	for i := 0; i < np; i++ {
		s.Params = append(s.Params, pp())
	}
	if g.abiResults == nil || r.Chance(1, 3) {
		rp := class()
		nr := []int{0, 1, 2, 7, 8, 9, 10, 11, 12}[r.Intn(9)]
		var res []wenc.ValType
		for i := 0; i < nr; i++ {
			res = append(res, rp())
		}
		if g.abiResults == nil {
			g.abiResults = res
		}
		s.Results = res
	} else {
		s.Results = g.abiResults
	}
	return s
}

// Generate builds one program.
func Generate(r *core.Rng, cfg Config) *Program {
	g := &gen{r: r, cfg: cfg, m: &wenc.Module{}, p: &Program{Cfg: cfg, OpsUsed: map[string]int{}, FuncIndex: map[string]uint32{}}}
	m := g.m
	g.hasMem = true
	g.memBytes = cfg.MemMin * 65536
	// ---- imports (functions only; memory/table/globals are defined locally) ----
	for i := 0; i < cfg.HostFuncs; i++ {
		s := g.randSig(4, 2)
		// host functions use numeric types only (no v128 through reflection-free GoModuleFunc is fine, but keep simple)
		s.Params = noV128(s.Params)
		s.Results = noV128(s.Results)
		h := HostImport{Name: fmt.Sprintf("h%d", i), Kind: "log", Params: s.Params, Results: s.Results}
		g.p.Host = append(g.p.Host, h)
	}
	if !cfg.NoHostState {
		g.p.Host = append(g.p.Host,
			HostImport{Name: "hcb", Kind: "cb", Params: []wenc.ValType{i32}, Results: []wenc.ValType{i32}},
			HostImport{Name: "hgrow", Kind: "grow", Params: []wenc.ValType{i32}, Results: []wenc.ValType{i32}},
			HostImport{Name: "hwrite", Kind: "write", Params: []wenc.ValType{i32, i32}, Results: nil},
			// hclose: only acts when the runner enables it (wrun.Options.HostClose): closes the calling module
			// with exit code 7 and returns normally; otherwise returns 0
			HostImport{Name: "hclose", Kind: "close", Params: []wenc.ValType{i32}, Results: []wenc.ValType{i32}})
	}
	for _, h := range g.p.Host {
		m.ImportFunc(cfg.HostModuleName(), h.Name, h.Params, h.Results)
		g.sigs = append(g.sigs, FuncSig{h.Params, h.Results})
	}
	g.nImp = uint32(len(g.p.Host))
	// ---- function signatures ----
	nf := cfg.Funcs
	if nf < 1 {
		nf = 1
	}
	for i := 0; i < nf; i++ {
		s := g.randSig(4, 3)
		if cfg.ABIHeavy {
			s = g.abiSig()
		}
		if i == 0 {
			s = FuncSig{[]wenc.ValType{i32}, []wenc.ValType{i32}} // "cb": callable from the host
		}
		if i > 1 && g.r.Chance(1, 5) { // same results, other parameters: tail-call partners with different argument areas
			s.Results = g.sigs[g.nImp+uint32(g.r.Intn(i))].Results
		}
		if i > 1 && g.r.Chance(1, 3) { // reuse a signature so that call_indirect / return_call find partners
			s = g.sigs[g.nImp+uint32(g.r.Intn(i))]
		}
		g.sigs = append(g.sigs, s)
		g.p.Funcs = append(g.p.Funcs, s)
	}
	g.cbFunc = g.nImp
	// helper functions come after the generated ones
	// ---- memory, table, globals ----
	m.Mems = []wenc.Limits{{Min: cfg.MemMin, Max: cfg.MemMax, HasMax: true, Shared: cfg.SharedMem}}
	m.Exports = append(m.Exports, wenc.Export{Name: "mem", Kind: wenc.ExtMemory, Idx: 0})
	m.Tables = []wenc.TableType{{Elem: wenc.FuncRef, Lim: wenc.Limits{Min: cfg.TableSize, Max: cfg.TableSize + 4, HasMax: true}}}
	m.Exports = append(m.Exports, wenc.Export{Name: "tab", Kind: wenc.ExtTable, Idx: 0})
	// global 0: fuel
	m.Globals = append(m.Globals, wenc.Global{Type: wenc.GlobalType{Type: i32, Mutable: true}, Init: wenc.ConstI32(cfg.Fuel)})
	g.globals = append(g.globals, wenc.GlobalType{Type: i32, Mutable: true})
	g.fuelG = 0
	m.Exports = append(m.Exports, wenc.Export{Name: "__fuel", Kind: wenc.ExtGlobal, Idx: 0})
	ng := 2 + g.r.Intn(5)
	for i := 0; i < ng; i++ {
		t := g.randType()
		mut := g.r.Chance(3, 4)
		var init []byte
		switch t {
		case i32:
			init = wenc.ConstI32(int32(g.r.I32()))
		case i64:
			init = wenc.ConstI64(int64(g.r.I64()))
		case f32:
			init = wenc.ConstF32(g.r.F32())
		case f64:
			init = wenc.ConstF64(g.r.F64())
		case v128:
			init = wenc.ConstV128(g.r.U64(), g.r.U64())
		}
		idx := uint32(len(m.Globals))
		m.Globals = append(m.Globals, wenc.Global{Type: wenc.GlobalType{Type: t, Mutable: mut}, Init: init})
		g.globals = append(g.globals, wenc.GlobalType{Type: t, Mutable: mut})
		name := fmt.Sprintf("g%d", i)
		m.Exports = append(m.Exports, wenc.Export{Name: name, Kind: wenc.ExtGlobal, Idx: idx})
		g.p.Globals = append(g.p.Globals, GlobalInfo{Name: name, Type: t, Mutable: mut})
	}
	// a funcref global
	if g.r.Bool() {
		m.Globals = append(m.Globals, wenc.Global{Type: wenc.GlobalType{Type: wenc.FuncRef, Mutable: true}, Init: wenc.ConstRefNull(wenc.FuncRef)})
		g.globals = append(g.globals, wenc.GlobalType{Type: wenc.FuncRef, Mutable: true})
	}
	// ---- element segments ----
	g.tableFns = make([]uint32, cfg.TableSize)
	for i := range g.tableFns {
		g.tableFns[i] = ^uint32(0)
	}
	if cfg.TableSize > 0 {
		n := 1 + g.r.Intn(int(cfg.TableSize))
		off := g.r.Intn(int(cfg.TableSize) - n + 1)
		var fi []uint32
		for i := 0; i < n; i++ {
			f := g.nImp + uint32(g.r.Intn(nf))
			if g.r.Chance(1, 8) && g.nImp > 0 {
				f = uint32(g.r.Intn(int(g.nImp))) // host function in table
			}
			fi = append(fi, f)
			g.tableFns[off+i] = f
		}
		m.Elems = append(m.Elems, wenc.Elem{Mode: 0, Offset: wenc.ConstI32(int32(off)), FuncIdx: fi})
	}
	// passive element segment + declarative (for ref.func)
	{
		var fi []uint32
		for i, n := 0, 3+g.r.Intn(3); i < n; i++ {
			fi = append(fi, g.nImp+uint32(g.r.Intn(nf)))
		}
		if g.r.Bool() {
			var ex [][]byte
			for _, f := range fi {
				if g.r.Chance(1, 4) {
					ex = append(ex, wenc.ConstRefNull(wenc.FuncRef))
				} else {
					ex = append(ex, wenc.ConstRefFunc(f))
				}
			}
			m.Elems = append(m.Elems, wenc.Elem{Mode: 1, Type: wenc.FuncRef, UseExprs: true, Exprs: ex})
		} else {
			m.Elems = append(m.Elems, wenc.Elem{Mode: 1, FuncIdx: fi})
		}
		g.passiveElem = len(m.Elems) - 1
		var all []uint32
		for i := 0; i < nf; i++ {
			all = append(all, g.nImp+uint32(i))
		}
		m.Elems = append(m.Elems, wenc.Elem{Mode: 2, FuncIdx: all})
	}
	// ---- data segments ----
	m.DataCount = true
	if cfg.MemMin > 0 {
		for k := 0; k < 1+g.r.Intn(2); k++ {
			n := 1 + g.r.Intn(64)
			off := g.r.Intn(int(g.memBytes) - n)
			if g.r.Bool() {
				off = g.r.Intn(4096)
			}
			m.Datas = append(m.Datas, wenc.Data{Mode: 0, Offset: wenc.ConstI32(int32(off)), Bytes: g.r.Bytes(n)})
		}
	}
	m.Datas = append(m.Datas, wenc.Data{Mode: 1, Bytes: g.r.Bytes(24 + g.r.Intn(48))})
	g.passiveData = len(m.Datas) - 1
	// ---- function bodies ----
	for i := 0; i < nf; i++ {
		g.genFunc(uint32(i))
	}
	for i := 0; i < nf; i++ {
		name := fmt.Sprintf("f%d", i)
		m.ExportFunc(name, g.nImp+uint32(i))
		g.p.FuncIndex[name] = g.nImp + uint32(i)
	}
	// ---- helpers ----
	{
		c := &wenc.Code{}
		c.LocalGet(0).GlobalSet(g.fuelG).End()
		m.ExportFunc("__setfuel", m.AddFunc([]wenc.ValType{i32}, nil, nil, c.B))
		c = &wenc.Code{}
		c.Prefixed(0xfc, 16).U32(0).End() // table.size 0
		m.ExportFunc("__tsize", m.AddFunc(nil, []wenc.ValType{i32}, nil, c.B))
		c = &wenc.Code{}
		c.LocalGet(0).TableGet(0).RefIsNull().End()
		m.ExportFunc("__tnull", m.AddFunc([]wenc.ValType{i32}, []wenc.ValType{i32}, nil, c.B))
	}
	// start function: a generated function with no params/results, if any
	if !cfg.NoStart && g.r.Chance(1, 4) {
		for i := 0; i < nf; i++ {
			s := g.p.Funcs[i]
			if len(s.Params) == 0 && len(s.Results) == 0 {
				idx := g.nImp + uint32(i)
				m.Start = &idx
				g.p.HasStart = true
				break
			}
		}
	}
	g.p.Types = m.Types
	g.p.Mod = m
	g.p.Bin = m.Encode()
	return g.p
}

func noV128(ts []wenc.ValType) []wenc.ValType {
	out := make([]wenc.ValType, 0, len(ts))
	for _, t := range ts {
		if t == v128 {
			t = i64
		}
		out = append(out, t)
	}
	return out
}

// ---------------------------------------------------------------------------

type label struct {
	loop  bool
	arity int // branch arity (values needed on the stack): only arity-0 labels are branch targets
}

type fgen struct {
	g        *gen
	r        *core.Rng
	c        *wenc.Code
	self     uint32
	sig      FuncSig
	locals   []wenc.ValType // params + locals
	nparams  int
	labels   []label
	budget   int
	scratch  map[wenc.ValType]uint32
	counters []uint32 // i32 locals reserved as loop counters
	ctrUsed  int
}

func (g *gen) genFunc(i uint32) {
	sig := g.sigs[g.nImp+i]
	f := &fgen{g: g, r: g.r, c: &wenc.Code{}, self: g.nImp + i, sig: sig, budget: g.cfg.Stmts, scratch: map[wenc.ValType]uint32{}}
	f.locals = append(f.locals, sig.Params...)
	f.nparams = len(sig.Params)
	nl := 1 + g.r.Intn(5)
	if g.cfg.ManyLocals {
		nl = 12 + g.r.Intn(24)
	}
	for k := 0; k < nl; k++ {
		f.locals = append(f.locals, g.randType())
	}
	for _, t := range []wenc.ValType{f32, f64, v128} {
		if t == v128 && !g.cfg.SIMD {
			continue
		}
		f.scratch[t] = uint32(len(f.locals))
		f.locals = append(f.locals, t)
	}
	for k := 0; k < 3; k++ {
		f.counters = append(f.counters, uint32(len(f.locals)))
		f.locals = append(f.locals, i32)
	}
	f.fuelCheck()
	// with many locals, initialise them so that they are live across calls
	if g.cfg.ManyLocals {
		for li := f.nparams; li < f.nparams+nl; li++ {
			f.expr(f.locals[li], 1)
			f.c.LocalSet(uint32(li))
		}
	}
	f.labels = append(f.labels, label{arity: len(sig.Results)})
	terminated := f.stmts(f.budget)
	if !terminated {
		for _, t := range sig.Results {
			f.expr(t, g.cfg.Depth)
		}
	}
	f.c.End()
	g.m.AddFunc(sig.Params, sig.Results, f.locals[f.nparams:], f.c.B)
}

// fuelCheck: if fuel == 0 trap, else fuel--. Identical on both engines, so
// termination is engine-independent.
func (f *fgen) fuelCheck() {
	c := f.c
	c.GlobalGet(f.g.fuelG).Op(0x45).If(0x40).Unreachable().End()
	c.GlobalGet(f.g.fuelG).I32Const(1).Op(0x6b).GlobalSet(f.g.fuelG)
}

func (f *fgen) localsOf(t wenc.ValType) []uint32 {
	var out []uint32
	for i, lt := range f.locals {
		if lt == t && !f.reserved(uint32(i)) {
			out = append(out, uint32(i))
		}
	}
	return out
}

func (f *fgen) reserved(i uint32) bool {
	for _, s := range f.scratch {
		if s == i {
			return true
		}
	}
	for _, c := range f.counters {
		if c == i {
			return true
		}
	}
	return false
}

func (f *fgen) constOf(t wenc.ValType) {
	r := f.r
	switch t {
	case i32:
		f.c.I32Const(int32(r.I32()))
	case i64:
		f.c.I64Const(int64(r.I64()))
	case f32:
		f.c.F32Const(r.F32())
	case f64:
		f.c.F64Const(r.F64())
	case v128:
		switch r.Intn(3) {
		case 0:
			f.c.V128Const(uint64(r.F32())|uint64(r.F32())<<32, uint64(r.F32())|uint64(r.F32())<<32)
		case 1:
			f.c.V128Const(r.F64(), r.F64())
		default:
			f.c.V128Const(r.I64(), r.I64())
		}
	}
}

func (f *fgen) leaf(t wenc.ValType) {
	r := f.r
	switch r.Intn(5) {
	case 0, 1:
		if ls := f.localsOf(t); len(ls) > 0 {
			f.c.LocalGet(ls[r.Intn(len(ls))])
			return
		}
	case 2:
		var gs []uint32
		for i, gt := range f.g.globals {
			if gt.Type == t && uint32(i) != f.g.fuelG {
				gs = append(gs, uint32(i))
			}
		}
		if len(gs) > 0 {
			f.c.GlobalGet(gs[r.Intn(len(gs))])
			return
		}
	}
	f.constOf(t)
}

// canon inserts the canonicalising sequence for a value of type t on the stack.
func (f *fgen) canon(t wenc.ValType) {
	s := f.scratch[t]
	c := f.c
	switch t {
	case f32:
		c.LocalSet(s).F32Const(0x7fc00000).LocalGet(s).LocalGet(s).LocalGet(s).Op(0x5c).Select()
	case f64:
		c.LocalSet(s).F64Const(0x7ff8000000000000).LocalGet(s).LocalGet(s).LocalGet(s).Op(0x62).Select()
	}
}

// canonV canonicalises float lanes of a v128 (lane shape 4 or 2).
func (f *fgen) canonV(lanes int) {
	s := f.scratch[v128]
	c := f.c
	if lanes == 4 {
		c.LocalSet(s).V128Const(0x7fc000007fc00000, 0x7fc000007fc00000).LocalGet(s).LocalGet(s).LocalGet(s).Raw(simd(0x42)).Raw(simd(0x52))
	} else {
		c.LocalSet(s).V128Const(0x7ff8000000000000, 0x7ff8000000000000).LocalGet(s).LocalGet(s).LocalGet(s).Raw(simd(0x48)).Raw(simd(0x52))
	}
}

func laneShape(name string) int {
	if len(name) >= 5 && name[:5] == "f64x2" {
		return 2
	}
	return 4
}

var opsByOut = map[wenc.ValType][]numOp{}
var simdByOut = map[wenc.ValType][]numOp{}

func init() {
	for _, o := range scalarOps {
		opsByOut[o.Out] = append(opsByOut[o.Out], o)
	}
	for _, o := range simdOps {
		simdByOut[o.Out] = append(simdByOut[o.Out], o)
	}
}

func trapping(name string) bool {
	switch name {
	case "i32.div_s", "i32.div_u", "i32.rem_s", "i32.rem_u", "i64.div_s", "i64.div_u", "i64.rem_s", "i64.rem_u",
		"i32.trunc_f32_s", "i32.trunc_f32_u", "i32.trunc_f64_s", "i32.trunc_f64_u",
		"i64.trunc_f32_s", "i64.trunc_f32_u", "i64.trunc_f64_s", "i64.trunc_f64_u":
		return true
	}
	return false
}

func (f *fgen) numOp(t wenc.ValType, d int) bool {
	r := f.r
	var cands []numOp
	cands = opsByOut[t]
	if f.g.cfg.SIMD && (t == v128 || r.Chance(1, 4)) {
		if sc := simdByOut[t]; len(sc) > 0 {
			cands = sc
		}
	}
	if len(cands) == 0 {
		return false
	}
	op := cands[r.Intn(len(cands))]
	if trapping(op.Name) && !f.g.cfg.TrapHeavy && !r.Chance(1, 40) {
		// guarded form: make the divisor odd / use a small float
		switch {
		case len(op.In) == 2:
			f.expr(op.In[0], d-1)
			f.expr(op.In[1], d-1)
			if op.In[1] == i32 {
				f.c.I32Const(1).Op(0x72)
			} else {
				f.c.I64Const(1).Op(0x84)
			}
		default:
			// trunc of a converted small integer: never traps
			f.expr(i32, d-1)
			f.c.I32Const(0xffff).Op(0x71)
			if op.In[0] == f32 {
				f.c.Op(0xb2)
			} else {
				f.c.Op(0xb7)
			}
		}
		f.c.Raw(op.Enc)
		f.g.use(op.Name)
		return true
	}
	for _, in := range op.In {
		// one operand in six comes straight from a load, whatever the depth: back ends fold a single-use load into
		// the memory form of the consuming instruction, which is not always the same instruction (widths, merging
		// vs zeroing of the untouched part of a register)
		if r.Chance(1, 6) && f.load(in, 1) {
			f.g.use("operand-straight-from-load")
			continue
		}
		f.expr(in, d-1)
	}
	f.c.Raw(op.Enc)
	if op.Lane > 0 {
		f.c.Op(byte(r.Intn(op.Lane)))
	}
	f.g.use(op.Name)
	if op.NaN {
		if op.Out == v128 {
			if op.Name == "f32x4.demote_f64x2_zero" {
				f.canonV(4)
			} else if op.Name == "f64x2.promote_low_f32x4" {
				f.canonV(2)
			} else {
				f.canonV(laneShape(op.Name))
			}
		} else {
			f.canon(op.Out)
		}
	}
	return true
}

// addr pushes an i32 address; mostly in bounds of the minimum memory for an access of width w at static offset off.
func (f *fgen) addr(d int, w uint32, off uint32, alignTo uint32) {
	r := f.r
	if f.g.memBytes == 0 || (r.Chance(1, 100) && !f.g.cfg.TrapHeavy) || (f.g.cfg.TrapHeavy && r.Chance(1, 5)) {
		f.expr(i32, d-1) // raw: probably out of bounds
	} else {
		switch r.Intn(4) {
		case 0:
			f.c.I32Const(int32(r.Intn(int(f.g.memBytes/2 - 64))))
		default:
			f.expr(i32, d-1)
			f.c.I32Const(int32(f.g.memBytes/2 - 1)).Op(0x71) // and
		}
	}
	if alignTo > 1 && !r.Chance(1, 10) {
		f.c.I32Const(^int32(alignTo - 1)).Op(0x71)
	}
}

func log2(w uint32) uint32 {
	n := uint32(0)
	for w > 1 {
		w >>= 1
		n++
	}
	return n
}

func (f *fgen) load(t wenc.ValType, d int) bool {
	r := f.r
	var cands []memOp
	for _, o := range loadOps {
		if o.T == t {
			cands = append(cands, o)
		}
	}
	if t == v128 {
		cands = append(cands, simdLoadOps...)
	}
	if len(cands) == 0 {
		return false
	}
	// atomic loads
	if f.g.cfg.Threads && (t == i32 || t == i64) && r.Chance(1, 4) {
		var ac []atomicOp
		for _, a := range atomicOps {
			if a.T == t && a.Kind != 1 {
				ac = append(ac, a)
			}
		}
		a := ac[r.Intn(len(ac))]
		off := uint32(r.Intn(4)) * a.Width
		f.addr(d, a.Width, off, a.Width)
		switch a.Kind {
		case 2:
			f.expr(t, d-1)
		case 3:
			f.expr(t, d-1)
			f.expr(t, d-1)
		}
		f.c.Op(0xfe, a.Sub).U32(log2(a.Width)).U32(off)
		f.g.use(a.Name)
		return true
	}
	if t == v128 && r.Chance(1, 4) {
		o := simdLaneLoadOps[r.Intn(len(simdLaneLoadOps))]
		off := f.staticOff()
		f.addr(d, o.Width, off, 1)
		f.expr(v128, d-1)
		f.c.Raw(o.Enc).U32(uint32(r.Intn(int(log2(o.Width)) + 1))).U32(off).Op(byte(r.Intn(o.Lane)))
		f.g.use(o.Name)
		return true
	}
	o := cands[r.Intn(len(cands))]
	off := f.staticOff()
	f.addr(d, o.Width, off, 1)
	f.c.Raw(o.Enc).U32(uint32(r.Intn(int(log2(o.Width)) + 1))).U32(off)
	f.g.use(o.Name)
	return true
}

func (f *fgen) staticOff() uint32 {
	r := f.r
	switch r.Intn(8) {
	case 0:
		return uint32(r.Intn(int(f.g.memBytes/2) + 1))
	case 1:
		if r.Chance(1, 16) {
			return core.I32Edge[r.Intn(len(core.I32Edge))]
		}
		return uint32(r.Intn(64))
	default:
		return uint32(r.Intn(16))
	}
}

// callTargets returns function indexes whose results are exactly want.
func (f *fgen) callTargets(want []wenc.ValType) []uint32 {
	var out []uint32
	// mostly a DAG (callee index > caller index, or a host import) so that
	// calls usually return instead of recursing until the fuel runs out
	dag := !f.r.Chance(1, 10)
	for i, s := range f.g.sigs {
		if dag && uint32(i) >= f.g.nImp && uint32(i) <= f.self {
			continue
		}
		if string(s.Results) == string(want) {
			out = append(out, uint32(i))
		}
	}
	return out
}

// anyCallTarget picks a callee for a call statement (same DAG bias).
func (f *fgen) anyCallTarget() uint32 {
	if !f.r.Chance(1, 10) {
		var out []uint32
		for i := range f.g.sigs {
			if uint32(i) < f.g.nImp || uint32(i) > f.self {
				out = append(out, uint32(i))
			}
		}
		if len(out) > 0 {
			return out[f.r.Intn(len(out))]
		}
	}
	return uint32(f.r.Intn(len(f.g.sigs)))
}

func (f *fgen) typeIdx(s FuncSig) uint32 { return f.g.m.AddType(s.Params, s.Results) }

// emitCall emits args + a call (direct, indirect or host) to fn.
func (f *fgen) emitCall(fn uint32, d int) {
	s := f.g.sigs[fn]
	for _, p := range s.Params {
		f.expr(p, d-1)
	}
	r := f.r
	// indirect through the table if fn sits in a known slot
	if r.Chance(1, 3) {
		for slot, tf := range f.g.tableFns {
			if tf == fn {
				if r.Chance(1, 60) {
					f.expr(i32, 1) // arbitrary index: may trap (deterministically)
				} else {
					f.i32Exact(int32(slot))
				}
				f.c.CallIndirect(f.typeIdx(s), 0)
				f.g.use("call_indirect")
				return
			}
		}
	}
	f.c.Call(fn)
	f.g.use("call")
}

func (f *fgen) call(t wenc.ValType, d int) bool {
	ts := f.callTargets([]wenc.ValType{t})
	if len(ts) == 0 {
		return false
	}
	f.emitCall(ts[f.r.Intn(len(ts))], d)
	return true
}

// expr emits code pushing exactly one value of type t.
func (f *fgen) expr(t wenc.ValType, d int) {
	r := f.r
	if d <= 0 {
		f.leaf(t)
		return
	}
	for try := 0; try < 4; try++ {
		k := r.Intn(20)
		if f.g.cfg.CallHeavy && r.Chance(1, 3) {
			k = 12
		}
		switch {
		case k < 3:
			f.leaf(t)
			return
		case k < 10:
			if f.numOp(t, d) {
				return
			}
		case k < 12:
			if f.load(t, d) {
				return
			}
		case k < 14:
			if (k == 12 || f.g.cfg.CallHeavy) && f.call(t, d) {
				return
			}
		case k == 14: // select
			f.expr(t, d-1)
			f.expr(t, d-1)
			f.cond(d - 1)
			f.c.Select()
			f.g.use("select")
			return
		case k == 15: // if/else with result
			f.cond(d - 1)
			f.c.If(t)
			f.labels = append(f.labels, label{arity: 1})
			f.expr(t, d-1)
			f.c.Else()
			f.expr(t, d-1)
			f.c.End()
			f.labels = f.labels[:len(f.labels)-1]
			f.g.use("if-result")
			return
		case k == 16: // block with result and br_if carrying the value
			f.c.Block(t)
			f.labels = append(f.labels, label{arity: 1})
			f.expr(t, d-1)
			f.cond(d - 1)
			f.c.BrIf(0)
			f.c.Drop()
			f.expr(t, d-1)
			f.c.End()
			f.labels = f.labels[:len(f.labels)-1]
			f.g.use("block-result-br_if")
			return
		case k == 17: // local.tee
			if ls := f.localsOf(t); len(ls) > 0 {
				f.expr(t, d-1)
				f.c.LocalTee(ls[r.Intn(len(ls))])
				f.g.use("local.tee")
				return
			}
		case k == 18 && t == i32:
			switch r.Intn(6) {
			case 0:
				f.c.MemorySize()
				f.g.use("memory.size")
			case 1:
				f.c.I32Const(int32(r.Intn(3)))
				f.c.MemoryGrow()
				f.g.use("memory.grow")
			case 2:
				f.c.Prefixed(0xfc, 16).U32(0)
				f.g.use("table.size")
			case 3:
				f.expr(i32, d-1)
				f.c.I32Const(int32(f.g.cfg.TableSize)).Op(0x70) // rem_u (TableSize>0)
				f.c.TableGet(0).RefIsNull()
				f.g.use("table.get")
			case 4:
				// table.grow with null / ref.func
				if r.Bool() {
					f.c.RefNull(wenc.FuncRef)
				} else {
					f.c.RefFunc(f.g.nImp + uint32(r.Intn(len(f.g.p.Funcs))))
				}
				f.c.I32Const(int32(r.Intn(3)))
				f.c.Prefixed(0xfc, 15).U32(0)
				f.g.use("table.grow")
			default:
				f.c.RefFunc(f.g.nImp + uint32(r.Intn(len(f.g.p.Funcs)))).RefIsNull()
				f.g.use("ref.func")
			}
			return
		}
	}
	f.leaf(t)
}

// cond emits an i32 used as a branch/select condition. Half of the time it is a
// comparison whose operand shapes matter to fused compare-and-branch lowerings:
// constants on either side, zero against an `and`, eqz, float compares.
func (f *fgen) cond(d int) {
	r := f.r
	if r.Bool() {
		f.expr(i32, d)
		return
	}
	t := []wenc.ValType{i32, i32, i64, f32, f64}[r.Intn(5)]
	operand := func(side int) {
		switch r.Intn(6) {
		case 0:
			f.constOf(t)
		case 1: // zero
			switch t {
			case i32:
				f.c.I32Const(0)
			case i64:
				f.c.I64Const(0)
			case f32:
				f.c.F32Const(0)
			default:
				f.c.F64Const(0)
			}
		case 2:
			if t == i32 || t == i64 { // and / or / xor / sub of two leaves
				f.leaf(t)
				f.leaf(t)
				base := byte(0x71)
				if t == i64 {
					base = 0x83
				}
				ops := []byte{base, base, base + 1, base + 2, base - 6} // and, and, or, xor, sub
				f.c.Op(ops[r.Intn(len(ops))])
			} else {
				f.leaf(t)
			}
		default:
			f.expr(t, d-1)
		}
	}
	operand(0)
	if (t == i32 || t == i64) && r.Chance(1, 6) {
		if t == i32 {
			f.c.Op(0x45)
		} else {
			f.c.Op(0x50)
		}
		f.g.use("cond-eqz")
		return
	}
	operand(1)
	switch t {
	case i32:
		f.c.Op(byte(0x46 + r.Intn(10)))
	case i64:
		f.c.Op(byte(0x51 + r.Intn(10)))
	case f32:
		f.c.Op(byte(0x5b + r.Intn(6)))
	default:
		f.c.Op(byte(0x61 + r.Intn(6)))
	}
	f.g.use("cond-compare")
}

// stmts emits up to n statements; returns true if the sequence ended with an
// unconditional transfer (rest of the block is unreachable and was not emitted).
func (f *fgen) stmts(n int) bool {
	for i := 0; i < n && f.budget > 0; i++ {
		f.budget--
		if f.stmt() {
			return true
		}
	}
	return false
}

func (f *fgen) store(d int) {
	r := f.r
	ops := storeOps
	if f.g.cfg.SIMD && r.Chance(1, 4) {
		if r.Bool() {
			o := simdLaneStoreOps[r.Intn(len(simdLaneStoreOps))]
			off := f.staticOff()
			f.addr(d, o.Width, off, 1)
			f.expr(v128, d-1)
			f.c.Raw(o.Enc).U32(uint32(r.Intn(int(log2(o.Width)) + 1))).U32(off).Op(byte(r.Intn(o.Lane)))
			f.g.use(o.Name)
			return
		}
		ops = simdStoreOps
	}
	if f.g.cfg.Threads && r.Chance(1, 4) {
		var ac []atomicOp
		for _, a := range atomicOps {
			if a.Kind == 1 {
				ac = append(ac, a)
			}
		}
		a := ac[r.Intn(len(ac))]
		off := uint32(r.Intn(4)) * a.Width
		f.addr(d, a.Width, off, a.Width)
		f.expr(a.T, d-1)
		f.c.Op(0xfe, a.Sub).U32(log2(a.Width)).U32(off)
		f.g.use(a.Name)
		return
	}
	o := ops[r.Intn(len(ops))]
	off := f.staticOff()
	f.addr(d, o.Width, off, 1)
	f.expr(o.T, d-1)
	f.c.Raw(o.Enc).U32(uint32(r.Intn(int(log2(o.Width)) + 1))).U32(off)
	f.g.use(o.Name)
}

// small in-bounds i32 for bulk ops
func (f *fgen) smallI32(max int) {
	if f.r.Chance(1, 60) {
		f.expr(i32, 1)
		return
	}
	f.i32Exact(int32(f.r.Intn(max + 1)))
}

// i32Exact pushes the i32 value v; one time in eight as i32.wrap_i64 of a non-constant i64 whose upper half is
// whatever an i64 expression produced (an engine that keeps the upper half of a wrapped value in the register must
// not let it reach a table index, an address or a length).
func (f *fgen) i32Exact(v int32) {
	if f.r.Chance(1, 8) {
		f.expr(i64, 1)
		f.c.I64Const(32).Op(0x86)               // i64.shl
		f.c.I64Const(int64(uint32(v))).Op(0x84) // i64.or
		f.c.Op(0xa7)                            // i32.wrap_i64
		f.g.use("wrapped-i64-index")
		return
	}
	f.c.I32Const(v)
}

func (f *fgen) stmt() (terminated bool) {
	r := f.r
	d := f.g.cfg.Depth
	c := f.c
	k := r.Intn(40)
	if f.g.cfg.CallHeavy && r.Chance(1, 3) {
		k = 9
	}
	if f.g.cfg.ABIHeavy && r.Chance(1, 3) {
		k = []int{9, 9, 26}[r.Intn(3)]
	}
	if f.g.cfg.MutateHeavy && r.Chance(1, 3) {
		k = 16 + r.Intn(8)
	}
	switch {
	case k < 5: // local.set
		t := f.g.randType()
		if ls := f.localsOf(t); len(ls) > 0 {
			f.expr(t, d)
			c.LocalSet(ls[r.Intn(len(ls))])
			f.g.use("local.set")
		}
	case k < 7: // global.set
		var gs []uint32
		for i, gt := range f.g.globals {
			if gt.Mutable && uint32(i) != f.g.fuelG && gt.Type != wenc.FuncRef {
				gs = append(gs, uint32(i))
			}
		}
		if len(gs) > 0 {
			gi := gs[r.Intn(len(gs))]
			f.expr(f.g.globals[gi].Type, d)
			c.GlobalSet(gi)
			f.g.use("global.set")
		}
	case k < 9:
		f.store(d)
	case k < 11: // call, results into locals / dropped
		fn := f.anyCallTarget()
		f.emitCall(fn, d)
		res := f.g.sigs[fn].Results
		for i := len(res) - 1; i >= 0; i-- {
			if ls := f.localsOf(res[i]); len(ls) > 0 && r.Bool() {
				c.LocalSet(ls[r.Intn(len(ls))])
			} else {
				c.Drop()
			}
		}
	case k < 13: // if / else
		f.cond(d)
		c.If(0x40)
		f.labels = append(f.labels, label{})
		f.stmts(1 + r.Intn(3))
		if r.Bool() {
			c.Else()
			f.stmts(1 + r.Intn(3))
		}
		c.End()
		f.labels = f.labels[:len(f.labels)-1]
		f.g.use("if")
	case k < 15: // bounded loop
		if f.ctrUsed < len(f.counters) {
			ctr := f.counters[f.ctrUsed]
			f.ctrUsed++
			c.I32Const(int32(1 + r.Intn(5))).LocalSet(ctr)
			c.Loop(0x40)
			f.labels = append(f.labels, label{loop: true})
			f.fuelCheck()
			t := f.stmts(1 + r.Intn(3))
			if !t {
				c.LocalGet(ctr).I32Const(1).Op(0x6b).LocalTee(ctr).BrIf(0)
			}
			c.End()
			f.labels = f.labels[:len(f.labels)-1]
			f.ctrUsed--
			f.g.use("loop")
		}
	case k == 15: // block + br_table / br_if out
		c.Block(0x40)
		f.labels = append(f.labels, label{})
		c.Block(0x40)
		f.labels = append(f.labels, label{})
		f.stmts(1 + r.Intn(2))
		f.expr(i32, d)
		if r.Bool() {
			// targets: only arity-0, non-loop labels (the two blocks just opened)
			n := 1 + r.Intn(4)
			ls := make([]uint32, n)
			for i := range ls {
				ls[i] = uint32(r.Intn(2))
			}
			c.BrTable(ls, uint32(r.Intn(2)))
			f.g.use("br_table")
			c.End()
		} else {
			c.BrIf(uint32(r.Intn(2)))
			f.g.use("br_if")
			f.stmts(1)
			c.End()
		}
		f.labels = f.labels[:len(f.labels)-1]
		f.stmts(1)
		c.End()
		f.labels = f.labels[:len(f.labels)-1]
	case k == 16 && f.g.memBytes > 0: // memory.fill
		f.smallI32(int(f.g.memBytes) - 300)
		f.expr(i32, 1)
		f.smallI32(256)
		c.Prefixed(0xfc, 11).Op(0)
		f.g.use("memory.fill")
	case k == 17 && f.g.memBytes > 0: // memory.copy
		f.smallI32(int(f.g.memBytes) - 300)
		f.smallI32(int(f.g.memBytes) - 300)
		f.smallI32(256)
		c.Prefixed(0xfc, 10).Op(0, 0)
		f.g.use("memory.copy")
	case k == 18 && f.g.memBytes > 0: // memory.init from the passive segment
		f.smallI32(int(f.g.memBytes) - 300)
		f.smallI32(8)
		f.smallI32(16)
		c.Prefixed(0xfc, 8).U32(uint32(f.g.passiveData)).Op(0)
		f.g.use("memory.init")
	case k == 19:
		if r.Chance(1, 8) {
			c.Prefixed(0xfc, 9).U32(uint32(f.g.passiveData))
			f.g.use("data.drop")
		} else if r.Chance(1, 8) {
			c.Prefixed(0xfc, 13).U32(uint32(f.g.passiveElem))
			f.g.use("elem.drop")
		} else { // table.init
			f.smallI32(int(f.g.cfg.TableSize) - 1)
			f.smallI32(1)
			f.smallI32(2)
			c.Prefixed(0xfc, 12).U32(uint32(f.g.passiveElem)).U32(0)
			f.g.use("table.init")
		}
	case k == 20: // table.set
		f.smallI32(int(f.g.cfg.TableSize) - 1)
		if r.Chance(1, 4) {
			c.RefNull(wenc.FuncRef)
		} else {
			c.RefFunc(f.g.nImp + uint32(r.Intn(len(f.g.p.Funcs))))
		}
		c.TableSet(0)
		f.g.use("table.set")
	case k == 21: // table.fill / table.copy
		if r.Bool() {
			f.smallI32(int(f.g.cfg.TableSize) - 1)
			c.RefNull(wenc.FuncRef)
			f.smallI32(2)
			c.Prefixed(0xfc, 17).U32(0)
			f.g.use("table.fill")
		} else {
			f.smallI32(int(f.g.cfg.TableSize) - 1)
			f.smallI32(int(f.g.cfg.TableSize) - 1)
			f.smallI32(2)
			c.Prefixed(0xfc, 14).U32(0).U32(0)
			f.g.use("table.copy")
		}
	case k == 22: // funcref global <-> table
		for gi, gt := range f.g.globals {
			if gt.Type == wenc.FuncRef {
				if r.Bool() {
					c.RefFunc(f.g.nImp + uint32(r.Intn(len(f.g.p.Funcs)))).GlobalSet(uint32(gi))
				} else {
					f.smallI32(int(f.g.cfg.TableSize) - 1)
					c.GlobalGet(uint32(gi)).TableSet(0)
				}
				f.g.use("funcref-global")
				break
			}
		}
	case k == 23: // multi-value block
		t1, t2 := f.g.randType(), f.g.randType()
		ti := f.g.m.AddType(nil, []wenc.ValType{t1, t2})
		c.BlockT(0x02, ti)
		f.labels = append(f.labels, label{arity: 2})
		f.expr(t1, d-1)
		f.expr(t2, d-1)
		c.End()
		f.labels = f.labels[:len(f.labels)-1]
		for _, t := range []wenc.ValType{t2, t1} {
			if ls := f.localsOf(t); len(ls) > 0 {
				c.LocalSet(ls[r.Intn(len(ls))])
			} else {
				c.Drop()
			}
		}
		f.g.use("block-multivalue")
	case k == 24: // block with params
		t1 := f.g.randType()
		ti := f.g.m.AddType([]wenc.ValType{t1}, []wenc.ValType{t1})
		f.expr(t1, d-1)
		c.BlockT(0x02, ti)
		f.labels = append(f.labels, label{arity: 1})
		if ls := f.localsOf(t1); len(ls) > 0 {
			c.LocalTee(ls[r.Intn(len(ls))])
		}
		c.End()
		f.labels = f.labels[:len(f.labels)-1]
		c.Drop()
		f.g.use("block-param")
	case k == 25 && r.Chance(1, 3): // early return
		for _, t := range f.sig.Results {
			f.expr(t, d-1)
		}
		c.Return()
		f.g.use("return")
		return true
	case k == 26 && f.g.cfg.TailCall: // tail call
		ts := f.callTargets(f.sig.Results)
		if len(ts) > 0 {
			fn := ts[r.Intn(len(ts))]
			s := f.g.sigs[fn]
			for _, p := range s.Params {
				f.expr(p, d-1)
			}
			done := false
			if r.Chance(1, 3) {
				for slot, tf := range f.g.tableFns {
					if tf == fn {
						f.i32Exact(int32(slot))
						c.ReturnCallIndirect(f.typeIdx(s), 0)
						f.g.use("return_call_indirect")
						done = true
						break
					}
				}
			}
			if !done {
				c.ReturnCall(fn)
				f.g.use("return_call")
			}
			return true
		}
	case k == 27 && r.Chance(1, 6):
		c.Unreachable()
		f.g.use("unreachable")
		return true
	case k == 28: // drop of an expression (side effects via calls/grow)
		t := f.g.randType()
		f.expr(t, d)
		c.Drop()
	case k == 29 && f.g.cfg.Threads: // atomic.fence / notify (wait would block)
		if r.Bool() {
			c.Op(0xfe, 0x03, 0x00)
			f.g.use("atomic.fence")
		} else {
			f.addr(d, 4, 0, 4)
			c.I32Const(int32(r.Intn(2)))
			c.Op(0xfe, 0x00).U32(2).U32(0)
			c.Drop()
			f.g.use("memory.atomic.notify")
		}
	case k == 30 || k == 31: // local shuffles: b=a; a=const / swaps / rotations (parallel-move lowering at loop back edges)
		t := f.g.randType()
		ls := f.localsOf(t)
		if len(ls) >= 2 {
			a, b := ls[r.Intn(len(ls))], ls[r.Intn(len(ls))]
			switch r.Intn(4) {
			case 0: // b = a; a = const
				c.LocalGet(a).LocalSet(b)
				f.constOf(t)
				c.LocalSet(a)
			case 1: // swap through the stack
				c.LocalGet(a).LocalGet(b).LocalSet(a).LocalSet(b)
			case 2: // rotate three
				x := ls[r.Intn(len(ls))]
				c.LocalGet(a).LocalGet(b).LocalGet(x).LocalSet(a).LocalSet(b).LocalSet(x)
			default: // a = const; b = a (new value)
				f.constOf(t)
				c.LocalSet(a)
				c.LocalGet(a).LocalSet(b)
			}
			f.g.use("local-shuffle")
		}
	case k == 32: // leave the function by a branch to the function label (br / br_if / br_table)
		depth := uint32(len(f.labels) - 1)
		// half of the time extra operands (of other types than the results where possible) lie beneath the results
		// when the function is left: the branch discards them
		extra := 0
		if r.Bool() {
			extra = 1 + r.Intn(3)
			for i := 0; i < extra; i++ {
				f.expr(f.g.randType(), 1)
			}
			f.g.use("leave-function-with-extra-operands")
		}
		for _, t := range f.sig.Results {
			f.expr(t, d-1)
		}
		switch r.Intn(4) {
		case 0:
			c.Br(depth)
			f.g.use("br-to-function-label")
			return true
		case 3:
			c.Return()
			f.g.use("return")
			return true
		case 1:
			f.cond(d - 1)
			c.BrIf(depth)
			for range f.sig.Results {
				c.Drop()
			}
			for i := 0; i < extra; i++ {
				c.Drop()
			}
			f.g.use("br_if-to-function-label")
		default:
			f.expr(i32, 1)
			n := 1 + r.Intn(3)
			ls := make([]uint32, n)
			for i := range ls {
				ls[i] = depth
			}
			c.BrTable(ls, depth)
			f.g.use("br_table-to-function-label")
			return true
		}
	case k == 33: // loop whose back edge carries a shuffle of locals (phi parallel moves: b=a; a=const; swaps)
		t := []wenc.ValType{i32, i64, i32}[r.Intn(3)]
		ls := f.localsOf(t)
		if len(ls) >= 3 && f.ctrUsed < len(f.counters) {
			a, b, acc := ls[r.Intn(len(ls))], ls[r.Intn(len(ls))], ls[r.Intn(len(ls))]
			ctr := f.counters[f.ctrUsed]
			f.ctrUsed++
			c.I32Const(int32(2 + r.Intn(4))).LocalSet(ctr)
			c.Loop(0x40)
			f.labels = append(f.labels, label{loop: true})
			f.fuelCheck()
			// read b (and a) at the top of the iteration
			add, xor := byte(0x6a), byte(0x73)
			if t == i64 {
				add, xor = 0x7c, 0x85
			}
			c.LocalGet(acc).LocalGet(b).Op(add).LocalGet(a).Op(xor).LocalSet(acc)
			if r.Bool() {
				f.stmts(1)
			}
			switch r.Intn(5) {
			case 0: // b = a; a = const
				c.LocalGet(a).LocalSet(b)
				f.constOf(t)
				c.LocalSet(a)
			case 1: // a = const; then b = old a is NOT what happens: b = a (new)
				f.constOf(t)
				c.LocalSet(a)
				c.LocalGet(a).LocalSet(b)
			case 2: // swap
				c.LocalGet(a).LocalGet(b).LocalSet(a).LocalSet(b)
			case 3: // b = a; a = acc
				c.LocalGet(a).LocalSet(b)
				c.LocalGet(acc).LocalSet(a)
			default: // rotate a -> b -> acc -> a
				c.LocalGet(a).LocalGet(b).LocalGet(acc).LocalSet(a).LocalSet(b).LocalSet(acc)
			}
			c.LocalGet(ctr).I32Const(1).Op(0x6b).LocalTee(ctr).BrIf(0)
			c.End()
			f.labels = f.labels[:len(f.labels)-1]
			f.ctrUsed--
			f.g.use("loop-carried-shuffle")
		}
	case k == 35: // loop with block-type parameters (multi-value), back edge carrying the params with an extra operand beneath
		t1, t2 := f.g.randType(), f.g.randType()
		l1, l2 := f.localsOf(t1), f.localsOf(t2)
		if len(l1) > 0 && len(l2) > 0 && f.ctrUsed < len(f.counters) {
			b1, b2 := l1[r.Intn(len(l1))], l2[r.Intn(len(l2))]
			ctr := f.counters[f.ctrUsed]
			f.ctrUsed++
			ti := f.g.m.AddType([]wenc.ValType{t1, t2}, []wenc.ValType{t1, t2})
			c.I32Const(int32(2 + r.Intn(3))).LocalSet(ctr)
			f.expr(t1, d-1)
			f.expr(t2, d-1)
			c.BlockT(0x03, ti)
			f.labels = append(f.labels, label{loop: true, arity: 2})
			f.fuelCheck()
			c.LocalSet(b2).LocalSet(b1)
			extra := r.Bool()
			if extra {
				c.I64Const(int64(r.I64()))
			}
			if r.Bool() {
				// modify the carried values between iterations
				f.expr(t1, 1)
				c.LocalSet(b1)
			}
			c.LocalGet(b1).LocalGet(b2)
			c.LocalGet(ctr).I32Const(1).Op(0x6b).LocalTee(ctr).BrIf(0)
			c.LocalSet(b2).LocalSet(b1)
			if extra {
				c.Drop()
			}
			c.LocalGet(b1).LocalGet(b2)
			c.End()
			f.labels = f.labels[:len(f.labels)-1]
			f.ctrUsed--
			c.LocalSet(b2).LocalSet(b1)
			f.g.use("loop-with-params")
		}
	case k == 37 || k == 38: // repeated accesses through ONE address local, with things in between that grow or move the memory
		ls := f.localsOf(i32)
		if len(ls) > 0 && f.g.memBytes > 0 {
			a := ls[r.Intn(len(ls))]
			f.expr(i32, d-1)
			c.I32Const(int32(f.g.memBytes/2 - 1)).Op(0x71).LocalSet(a)
			n := 2 + r.Intn(3)
			for i := 0; i < n; i++ {
				off := uint32(r.Intn(64))
				if r.Chance(1, 4) {
					// a loaded value waits on the operand stack while overlapping bytes are written through the same
					// address (plain or atomic store / rmw), and is consumed afterwards: loads must not sink past writes
					t := []wenc.ValType{i32, i64}[r.Intn(2)]
					var lc []memOp
					for _, o := range loadOps {
						if o.T == t {
							lc = append(lc, o)
						}
					}
					lo := lc[r.Intn(len(lc))]
					loadFirst := r.Bool()
					if !loadFirst {
						f.expr(t, 1)
					}
					c.LocalGet(a)
					c.Raw(lo.Enc).U32(0).U32(off)
					f.g.use(lo.Name)
					off2 := off + uint32(r.Intn(4))
					c.LocalGet(a)
					if f.g.cfg.Threads && r.Bool() {
						var ac []atomicOp
						for _, x := range atomicOps {
							if (x.Kind == 1 || x.Kind == 2) && (x.Width == 1 || r.Chance(1, 3)) {
								ac = append(ac, x)
							}
						}
						x := ac[r.Intn(len(ac))]
						f.expr(x.T, 1)
						c.Op(0xfe, x.Sub).U32(log2(x.Width)).U32(off2)
						if x.Kind == 2 {
							c.Drop()
						}
						f.g.use(x.Name)
					} else {
						o := storeOps[r.Intn(len(storeOps))]
						f.expr(o.T, 1)
						c.Raw(o.Enc).U32(0).U32(off2)
						f.g.use(o.Name)
					}
					if loadFirst {
						f.expr(t, 1)
					}
					if t == i32 {
						c.Op([]byte{0x6a, 0x6b, 0x73, 0x71, 0x72}[r.Intn(5)])
					} else {
						c.Op([]byte{0x7c, 0x7d, 0x85, 0x83, 0x84}[r.Intn(5)])
					}
					if tl := f.localsOf(t); len(tl) > 1 {
						dst := tl[r.Intn(len(tl))]
						if dst == a {
							c.Drop()
						} else {
							c.LocalSet(dst)
						}
					} else {
						c.Drop()
					}
					f.g.use("load-held-across-write")
				} else if r.Chance(1, 3) {
					o := storeOps[r.Intn(len(storeOps))]
					c.LocalGet(a)
					f.expr(o.T, d-1)
					c.Raw(o.Enc).U32(uint32(r.Intn(int(log2(o.Width)) + 1))).U32(off)
					f.g.use(o.Name)
				} else {
					o := loadOps[r.Intn(len(loadOps))]
					c.LocalGet(a)
					c.Raw(o.Enc).U32(uint32(r.Intn(int(log2(o.Width)) + 1))).U32(off)
					f.g.use(o.Name)
					if tl := f.localsOf(o.T); len(tl) > 0 && !(o.T == i32 && len(tl) == 1) {
						t := tl[r.Intn(len(tl))]
						if t == a { // keep the address local
							c.Drop()
						} else {
							c.LocalSet(t)
						}
					} else {
						c.Drop()
					}
				}
				if i == n-1 {
					break
				}
				switch r.Intn(6) {
				case 0, 1:
					c.I32Const(int32(r.Intn(3)))
					c.MemoryGrow().Drop()
					f.g.use("memory.grow")
				case 2:
					fn := f.anyCallTarget()
					f.emitCall(fn, d)
					for range f.g.sigs[fn].Results {
						c.Drop()
					}
				case 3:
					f.store(d)
				case 4:
					if f.stmts(1) {
						return true
					}
				}
			}
			f.g.use("address-local-reuse")
		}
	case k == 39: // a lane of a v128 local written straight from a load (memory forms of the lane-insert instructions)
		vl := f.localsOf(v128)
		if f.g.cfg.SIMD && len(vl) > 0 && f.g.memBytes > 0 {
			v := vl[r.Intn(len(vl))]
			shapes := []struct {
				sub   uint32
				lanes int
				load  byte
				w     uint32
			}{{0x17, 16, 0x2d, 1}, {0x1a, 8, 0x2f, 2}, {0x1c, 4, 0x28, 4}, {0x1e, 2, 0x29, 8}, {0x20, 4, 0x2a, 4}, {0x22, 2, 0x2b, 8}}
			s := shapes[r.Intn(len(shapes))]
			off := uint32(r.Intn(64))
			c.LocalGet(v)
			f.addr(d, s.w, off, 1)
			c.Op(s.load).U32(0).U32(off)
			c.Op(0xfd).U32(s.sub).Op(byte(r.Intn(s.lanes)))
			c.LocalSet(v)
			f.g.use("lane-from-load")
		} else {
			f.store(d)
		}
	default:
		f.store(d)
	}
	return false
}
